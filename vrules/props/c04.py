"""C04 dial preconditions and address selection — decision table (K7), path counting (K2), guards (K1), origin (K5)."""
import re

from .. import lib, mir
from ..mir import render

EXPLANATION = ("Swarm::dial: the should_dial decision table over PeerCondition x peer x is_connected x is_dialing is extracted from "
               "the MIR (assignment sites + guards holding on all paths) and evaluated exhaustively against the documented "
               "table; every Err return is preceded by exactly one FromSwarm::DialFailure and no Pool::add_outgoing, the Ok return "
               "by exactly one add_outgoing; NoAddresses only on the is_empty edge; the retain closure keeps an address iff it is "
               "not a listen address and first occurrence; the dialled address is a.with_p2p(peer).")
ASSUMPTIONS = ["correctness of listened_addrs itself is C12", "Transport::dial implementations"]
SW = "libp2p_swarm"


def check(ctx):
    d = ctx.body(SW, r"^libp2p_swarm::Swarm::dial$")
    # ---- decision table
    l = lib.local_by_name(d, "should_dial")
    sites = [mir.Site(d, x[1], x[2]) for x in d.defs[l]]
    atom_map = [(r"^discr\(libp2p_swarm::dial_opts::DialOpts::get_peer_id\(", "peer"),
                (r"^discr\(libp2p_swarm::dial_opts::DialOpts::peer_condition\(", "cond"),
                (r"^libp2p_swarm::connection::pool::Pool::is_dialing\(self\.pool, .*get_peer_id", "is_dialing"),
                (r"^libp2p_swarm::connection::pool::Pool::is_connected\(self\.pool, .*get_peer_id", "is_connected")]

    def value_of(s):
        e = d.site_expr(s)
        r = render(e)
        if e[0] == "const":
            return "true" if e[1] else "false"
        m = re.match(r"^Not\(libp2p_swarm::connection::pool::Pool::(is_connected|is_dialing)\(self\.pool, .*get_peer_id.*@Some\.0\)\)$", r)
        if m:
            atom = m.group(1)
            return lambda asg, atom=atom: "false" if asg[atom] == "true" else "true"
        return "?" + r[:80]
    rows = lib.decision_rows(d, sites, atom_map, value_of)
    domain = {"peer": ["None", "Some"], "cond": ["Disconnected", "NotDialing", "DisconnectedAndNotDialing", "Always"],
              "is_dialing": ["true", "false"], "is_connected": ["true", "false"]}

    def ref(a):
        if a["peer"] == "None" or a["cond"] == "Always":
            return "true"
        c = a["is_connected"] == "true"
        g = a["is_dialing"] == "true"
        v = {"Disconnected": not c, "NotDialing": not g, "DisconnectedAndNotDialing": (not c) and (not g)}[a["cond"]]
        return "true" if v else "false"
    lib.check_table(ctx, "should-dial", "should_dial", rows, domain, ref, "%s:%d" % (d.file, d.line))
    ctx.floor("should-dial", "assignments to should_dial", sites, 5)
    # should_dial false => error return w/o add_outgoing
    rets = d.return_blocks()
    add = lib.bbs(d.call_sites(r"pool::Pool::add_outgoing$"))
    fail = lib.bbs(lib.calls_with_variant(d, r"NetworkBehaviour::on_swarm_event$", r"behaviour::FromSwarm$", "DialFailure"))
    ctx.floor("exits", "DialFailure notifications in dial", fail, 3)
    ctx.floor("exits", "add_outgoing in dial", add, 1)
    errs = d.agg_sites(r"^std::result::Result$", "Err")
    oks = d.agg_sites(r"^std::result::Result$", "Ok")
    # classify Err aggregates assigned to the return place
    err_ret = [s for s in errs if "pr" not in s.stmt["p"] and s.stmt["p"]["l"] == 0]
    ok_ret = [s for s in oks if "pr" not in s.stmt["p"] and s.stmt["p"]["l"] == 0]
    ctx.floor("exits", "Err returns", err_ret, 3)
    ctx.floor("exits", "Ok returns", ok_ret, 1)
    for s in err_ret:
        v = lib.agg_variants(d.site_expr(s), r"^libp2p_swarm::DialError$")
        name = (v or ["?"])[0]
        got_f = lib.count_range(d, [0], [s.bb], fail)
        got_a = lib.count_range(d, [0], [s.bb], add)
        ctx.ob("exits", "Err(%s): one DialFailure" % name, got_f == (1, 1), s.loc(), "DialFailure notifications before this Err return: %s" % (got_f,))
        ctx.ob("exits", "Err(%s): no add_outgoing" % name, got_a == (0, 0), s.loc(), "add_outgoing before this Err return: %s" % (got_a,))
    for s in ok_ret:
        got_f = lib.count_range(d, [0], [s.bb], fail)
        got_a = lib.count_range(d, [0], [s.bb], add)
        ctx.ob("exits", "Ok: no DialFailure", got_f == (0, 0), s.loc(), "DialFailure notifications before Ok: %s" % (got_f,))
        ctx.ob("exits", "Ok: one add_outgoing", got_a == (1, 1), s.loc(), "add_outgoing before Ok: %s" % (got_a,))
    # all returns are either an Err return or the Ok return
    for a in add:
        ctx.guarded("guards", "add_outgoing requires should_dial", mir.Site(d, a),
                    lambda c, r, lab: r == "should_dial" and lab == "true", "should_dial == true")
        ctx.guarded("guards", "add_outgoing requires behaviour Ok", mir.Site(d, a),
                    lambda c, r, lab: r.startswith("discr(libp2p_swarm::behaviour::NetworkBehaviour::handle_pending_outbound_connection(") and lab == "Ok",
                    "handle_pending_outbound_connection == Ok")
        ctx.guarded("guards", "add_outgoing requires addresses", mir.Site(d, a),
                    lambda c, r, lab: r.startswith("std::vec::Vec::is_empty(") and lab == "false", "!addresses.is_empty()")
    for s in err_ret:
        v = lib.agg_variants(d.site_expr(s), r"^libp2p_swarm::DialError$")
        if "NoAddresses" in v:
            ctx.guarded("guards", "NoAddresses only when empty", s,
                        lambda c, r, lab: r.startswith("std::vec::Vec::is_empty(") and lab == "true", "addresses.is_empty()")
        if "DialPeerConditionFalse" in v:
            ctx.guarded("guards", "DialPeerConditionFalse only when !should_dial", s,
                        lambda c, r, lab: r == "should_dial" and lab == "false", "should_dial == false")
        if "Denied" in v:
            ctx.guarded("guards", "Denied only on behaviour Err", s,
                        lambda c, r, lab: "handle_pending_outbound_connection(" in r and lab == "Err", "behaviour returned Err")
    # retain runs before emptiness test
    ret_s = d.call_sites(r"Vec::retain$")
    ctx.floor("retain", "retain call", ret_s, 1)
    emp = [bi for bi in d.live if d.switch_info(bi) and render(d.switch_info(bi)[0]).startswith("std::vec::Vec::is_empty(")]
    lib.precedes(ctx, "retain", "retain before is_empty", d, lib.bbs(ret_s), emp, "addresses filtered before the emptiness test")
    # ---- retain closure table: keep <=> !any(listened == addr) && unique.insert(addr)
    cl = ctx.body(SW, r"^libp2p_swarm::Swarm::dial::\{closure#0\}$")
    rsites = [mir.Site(cl, x[1], x[2]) for x in cl.defs[0]]
    amap = [(r"^std::iter::Iterator::any\(std::iter::Iterator::flatten\(std::collections::HashMap::values\(\^\*self\.listened_addrs\)\)", "is_listen_addr")]

    def rv(s):
        e = cl.site_expr(s)
        if e[0] == "const":
            return "drop" if not e[1] else "keep"
        if re.match(r"^std::collections::HashSet::insert\(\^unique_addresses, <libp2p_core::Multiaddr as std::clone::Clone>::clone\(addr\)\)$", render(e)):
            return lambda asg: "keep" if asg["first_occurrence"] == "true" else "drop"
        return "?" + render(e)[:60]
    rows = lib.decision_rows(cl, rsites, amap, rv)
    lib.check_table(ctx, "retain", "keep", rows, {"is_listen_addr": ["true", "false"], "first_occurrence": ["true", "false"]},
                    lambda a: "keep" if (a["is_listen_addr"] == "false" and a["first_occurrence"] == "true") else "drop",
                    "%s:%d" % (cl.file, cl.line))
    inner = ctx.body(SW, r"^libp2p_swarm::Swarm::dial::\{closure#0\}::\{closure#0\}$")
    eqs = inner.call_sites(r"PartialEq>::eq$|PartialEq::eq$")
    ok = len(eqs) == 1 and "addr" in render(inner.site_expr(eqs[0]))
    ctx.ob("retain", "any-closure compares with addr", ok, "%s:%d" % (inner.file, inner.line),
           "listen-address test is equality with the candidate: %s" % ([render(inner.site_expr(s)) for s in eqs]))
    # ---- dialled address = with_p2p(peer)
    c1 = ctx.body(SW, r"^libp2p_swarm::Swarm::dial::\{closure#1\}$")
    td = c1.call_sites(r"Transport>::dial$|Transport::dial$")
    ctx.floor("address", "transport.dial call", td, 1)
    for s in td:
        e = c1.site_expr(s)
        r = render(e[2][1])
        ctx.ob("address", "dial(address) originates from map_or(Ok(a), with_p2p)", "std::option::Option::map_or(^peer_id" in r and "@Ok.0" in r,
               s.loc(), "address operand: %s" % r[:160])
    c10 = ctx.body(SW, r"^libp2p_swarm::Swarm::dial::\{closure#1\}::\{closure#0\}$")
    wp = c10.call_sites(r"Multiaddr::with_p2p$")
    ctx.ob("address", "with_p2p(peer)", len(wp) == 1 and render(c10.site_expr(wp[0])).endswith(", p)"), "%s:%d" % (c10.file, c10.line),
           "peer id appended with Multiaddr::with_p2p")
