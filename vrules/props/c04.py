"""C04 dial preconditions and address selection — decision table (K7), path counting (K2), guards (K1), origin (K5)."""
import re

from .. import lib, mir
from .. import lib_sw as S
from ..mir import render

EXPLANATION = ("Swarm::dial: the boolean that guards the DialPeerConditionFalse exit (a local assigned in match arms, or the result of a "
               "crate-local helper whose body is then analysed) is evaluated abstractly over PeerCondition x peer x is_connected x "
               "is_dialing and compared with the documented table; the two pool views it relies on are themselves decided "
               "(is_dialing = some pending entry that is an outbound dial AND is for that peer; is_connected = the peer has an entry "
               "in the established map); every Err return is preceded by exactly one FromSwarm::DialFailure and no Pool::add_outgoing, "
               "the Ok return by exactly one add_outgoing; NoAddresses only on the is_empty edge; the retain closure keeps an address "
               "iff it is not a listen address and first occurrence; the dialled address is a.with_p2p(peer).")
ASSUMPTIONS = ["correctness of listened_addrs itself is C12", "Transport::dial implementations"]
SW = "libp2p_swarm"
NOISE = re.compile(r"tracing::|__CALLSITE|level_enabled|enabled$")
GET_PEER = r"libp2p_swarm::dial_opts::DialOpts::get_peer_id\(.*?\)"
GET_COND = r"libp2p_swarm::dial_opts::DialOpts::peer_condition\(.*?\)"


def _decision(ctx, prog, d, exit_site):
    """The boolean deciding the DialPeerConditionFalse exit: returns (kind, key, exit_label) with kind 'local' (key = local index)
    or 'call' (key = block of the helper call), exit_label = truth value of that boolean on the way to the exit."""
    cands = []
    for text, labels, swbb, cond in d.guards_on_all_paths(exit_site.bb):
        if len(labels) != 1 or NOISE.search(text):
            continue
        lab = next(iter(labels))
        if lab not in ("true", "false"):
            continue
        c, lab = S.unnot(cond, lab)
        if c[0] == "local" and len(d.defs.get(c[1], [])) >= 2 and not any(NOISE.search(render(x)) for _, x in S.defs_exprs(d, c[1])):
            cands.append((len(d.dominators().get(swbb) or ()), "local", c[1], lab))
        elif c[0] == "call" and S.crate_fn(prog, c[1]) is not None:
            cands.append((len(d.dominators().get(swbb) or ()), "call", c[3], lab))
    if not cands:
        return None
    cands.sort()
    return cands[-1][1:]


def _table(ctx, body, sites, peer, cond, negate, where):
    pool = r"self\.\w+"
    atom_map = [(r"^discr\(%s\)$" % peer, "peer"), (r"^discr\(%s\)$" % cond, "cond"),
                (r"^libp2p_swarm::connection::pool::Pool::is_dialing\(%s, %s@Some\.0\)$" % (pool, peer), "is_dialing"),
                (r"^libp2p_swarm::connection::pool::Pool::is_connected\(%s, %s@Some\.0\)$" % (pool, peer), "is_connected")]

    def value_of(s, asg, env):
        e = body.site_expr(s)
        v = lib.eval_bool(body, e, asg, env, atom_map)
        return v if v is not None else "?" + render(e)[:80]
    domain = {"peer": ["None", "Some"], "cond": ["Disconnected", "NotDialing", "DisconnectedAndNotDialing", "Always"],
              "is_dialing": ["true", "false"], "is_connected": ["true", "false"]}

    def ref(a):
        if a["peer"] == "None" or a["cond"] == "Always":
            v = True
        else:
            c = a["is_connected"] == "true"
            g = a["is_dialing"] == "true"
            v = {"Disconnected": not c, "NotDialing": not g, "DisconnectedAndNotDialing": (not c) and (not g)}[a["cond"]]
        if negate:
            v = not v
        return "true" if v else "false"
    lib.check_cells2(ctx, "should-dial", "should_dial", body, sites, value_of, atom_map, domain, ref, where)


def _views(ctx, prog):
    """the two pool views the decision relies on"""
    pend = S.role(prog, "pool.pending")
    est = S.role(prog, "pool.established")
    pfield = S.role(prog, "pending.peer")
    efield = S.role(prog, "pending.endpoint")
    # is_connected(peer) == established.contains_key(&peer)
    b = S.nbody(ctx, r"pool::Pool::is_connected$")
    rs = [render(e) for e in S.ret_exprs(b)]
    ctx.ob("views", "is_connected = the peer has an entry in the established map",
           rs == ["std::collections::HashMap::contains_key(self.%s, p2)" % est], "%s:%d" % (b.file, b.line), str(rs)[:200])
    # is_dialing(peer) == pending.iter().any(|e| e is an outbound dial && e is for peer)
    b = S.nbody(ctx, r"pool::Pool::is_dialing$")
    rex = S.ret_exprs(b)
    ok = len(rex) == 1 and S.is_call(rex[0], r"^std::iter::Iterator::any$") and \
        re.match(r"^std::collections::HashMap::(iter|values)\(self\.%s\)$" % re.escape(pend), render(rex[0][2][0])) is not None
    ctx.ob("views", "is_dialing = any() over the pending map", ok, "%s:%d" % (b.file, b.line), str([render(e) for e in rex])[:200])
    if not ok:
        return
    cl = S.closure_at(prog, b, rex[0])
    ctx.use(cl)
    _, caps = S.closure_captures(b, rex[0])
    ctx.ob("views", "is_dialing: the closure tests the queried peer", len(caps) == 1 and render(caps[0]) == "p2", "%s:%d" % (cl.file, cl.line), str([render(c) for c in caps]))
    entry = r"p2(\.1)?"
    same_helper = r"libp2p_swarm::connection::pool::PendingConnection::is_for_same_remote_as\(%s, \^\*?u0\)" % entry
    same_inline = r"<std::option::Option as std::cmp::PartialEq>::eq\(%s\.%s, std::option::Option::Some\{0: \^\*?u0\}\)" % (entry, re.escape(pfield))
    am = [(r"^discr\(%s\.%s\)$" % (entry, re.escape(efield)), "endpoint"), (r"^(%s|%s)$" % (same_helper, same_inline), "same")]

    def val(s, asg, env):
        e = cl.site_expr(s)
        v = lib.eval_bool(cl, e, asg, env, am)
        return v if v is not None else "?" + render(e)[:80]
    lib.check_cells2(ctx, "views", "is_dialing: entry counts iff outbound dial AND same remote", cl, S.ret_sites(cl), val, am,
                     {"endpoint": ["Dialer", "Listener"], "same": ["true", "false"]},
                     lambda a: "true" if a["endpoint"] == "Dialer" and a["same"] == "true" else "false", "%s:%d" % (cl.file, cl.line))
    if cl.call_sites(r"PendingConnection::is_for_same_remote_as$"):
        h = S.nbody(ctx, r"pool::PendingConnection::is_for_same_remote_as$")
        rs = [render(e) for e in S.ret_exprs(h)]
        ctx.ob("views", "is_for_same_remote_as compares the stored expected peer", rs in (["<std::option::Option as std::cmp::PartialEq>::eq(self.%s, std::option::Option::Some{0: p2})" % pfield],
                                                                                                   ["<std::option::Option as std::cmp::PartialEq>::eq(std::option::Option::Some{0: p2}, self.%s)" % pfield]),
               "%s:%d" % (h.file, h.line), str(rs)[:200])


def check(ctx):
    prog = ctx.prog
    d = S.nbody(ctx, r"^libp2p_swarm::Swarm::dial$")
    rets = d.return_blocks()
    add = lib.bbs(d.call_sites(r"pool::Pool::add_outgoing$"))
    fail = lib.bbs(lib.calls_with_variant(d, r"NetworkBehaviour::on_swarm_event$", r"behaviour::FromSwarm$", "DialFailure"))
    ctx.floor("exits", "DialFailure notifications in dial", fail, 3)
    ctx.floor("exits", "add_outgoing in dial", add, 1)
    errs = d.agg_sites(r"^std::result::Result$", "Err")
    oks = d.agg_sites(r"^std::result::Result$", "Ok")
    # classify Err aggregates assigned to the return place
    err_ret = [s for s in errs if "pr" not in s.stmt["p"] and s.stmt["p"]["l"] == 0]
    ok_ret = [s for s in oks if "pr" not in s.stmt["p"] and s.stmt["p"]["l"] == 0]
    ctx.floor("exits", "Err returns", err_ret, 3)
    ctx.floor("exits", "Ok returns", ok_ret, 1)

    def variants(s):
        return lib.agg_variants(d.site_expr(s), r"^libp2p_swarm::DialError$")
    # ---- decision table of the boolean that guards the DialPeerConditionFalse exit
    cf = [s for s in err_ret if "DialPeerConditionFalse" in variants(s)]
    ctx.floor("should-dial", "DialPeerConditionFalse exit", cf, 1)
    dec = _decision(ctx, prog, d, cf[0]) if cf else None
    ctx.ob("should-dial", "floor:decision guarding the DialPeerConditionFalse exit", dec is not None, cf[0].loc() if cf else "",
           "the exit is dominated by one edge of a boolean decision (a local or a crate-local helper result): %s" % (dec,), nontrivial=False)

    def same(c):
        return dec is not None and ((dec[0] == "local" and c[0] == "local" and c[1] == dec[1]) or (dec[0] == "call" and c[0] == "call" and c[3] == dec[1]))

    def dpred(value):
        def p(c, r, lab):
            c, lab = S.unnot(c, lab)
            return lab == value and same(c)
        return p
    if dec is not None:
        kind, key, exit_lab = dec
        negate = exit_lab == "true"
        if kind == "local":
            sites = [mir.Site(d, x[1], x[2]) for x in d.defs[key]]
            ctx.floor("should-dial", "assignments to should_dial", sites, 2)
            _table(ctx, d, sites, GET_PEER, GET_COND, negate, "%s:%d" % (d.file, d.line))
        else:
            call = d.call_expr(d.blocks[key]["term"], key)
            h = S.neutral(S.crate_fn(prog, call[1]))
            ctx.use(h)
            ip = S.param_of_type(h, r"^std::option::Option<libp2p_core::PeerId>$")
            ic = S.param_of_type(h, r"dial_opts::PeerCondition$")
            okp = len(call[2]) >= max(ip, ic) and re.match("^" + GET_PEER + "$", render(call[2][ip - 1])) is not None and \
                re.match("^" + GET_COND + "$", render(call[2][ic - 1])) is not None
            ctx.ob("should-dial", "helper is evaluated for this dial's peer and condition", okp, "%s:%d" % (d.file, d.blocks[key]["term"].get("l", 0)), render(call)[:200])
            sites = S.ret_sites(h)
            if len(sites) == 1 and h.site_expr(sites[0])[0] == "local":
                sites = [s for s, _ in S.defs_exprs(h, h.site_expr(sites[0])[1])]
            ctx.floor("should-dial", "assignments to should_dial", sites, 2)
            _table(ctx, h, sites, "p%d" % ip, "p%d" % ic, negate, "%s:%d" % (h.file, h.line))
    _views(ctx, prog)
    # ---- exits
    for s in err_ret:
        name = (variants(s) or ["?"])[0]
        got_f = lib.count_range(d, [0], [s.bb], fail)
        got_a = lib.count_range(d, [0], [s.bb], add)
        ctx.ob("exits", "Err(%s): one DialFailure" % name, got_f == (1, 1), s.loc(), "DialFailure notifications before this Err return: %s" % (got_f,))
        ctx.ob("exits", "Err(%s): no add_outgoing" % name, got_a == (0, 0), s.loc(), "add_outgoing before this Err return: %s" % (got_a,))
    for s in ok_ret:
        got_f = lib.count_range(d, [0], [s.bb], fail)
        got_a = lib.count_range(d, [0], [s.bb], add)
        ctx.ob("exits", "Ok: no DialFailure", got_f == (0, 0), s.loc(), "DialFailure notifications before Ok: %s" % (got_f,))
        ctx.ob("exits", "Ok: one add_outgoing", got_a == (1, 1), s.loc(), "add_outgoing before Ok: %s" % (got_a,))
    # all returns are either an Err return or the Ok return
    for a in add:
        if dec is not None:
            ctx.guarded("guards", "add_outgoing requires should_dial", mir.Site(d, a), dpred("false" if dec[2] == "true" else "true"), "should_dial == true")
        ctx.guarded("guards", "add_outgoing requires behaviour Ok", mir.Site(d, a),
                    lambda c, r, lab: r.startswith("discr(libp2p_swarm::behaviour::NetworkBehaviour::handle_pending_outbound_connection(") and lab == "Ok",
                    "handle_pending_outbound_connection == Ok")
        ctx.guarded("guards", "add_outgoing requires addresses", mir.Site(d, a),
                    lambda c, r, lab: r.startswith("std::vec::Vec::is_empty(") and lab == "false", "!addresses.is_empty()")
    for s in err_ret:
        v = variants(s)
        if "NoAddresses" in v:
            ctx.guarded("guards", "NoAddresses only when empty", s,
                        lambda c, r, lab: r.startswith("std::vec::Vec::is_empty(") and lab == "true", "addresses.is_empty()")
        if "DialPeerConditionFalse" in v and dec is not None:
            ctx.guarded("guards", "DialPeerConditionFalse only when !should_dial", s, dpred(dec[2]), "should_dial == false")
        if "Denied" in v:
            ctx.guarded("guards", "Denied only on behaviour Err", s,
                        lambda c, r, lab: "handle_pending_outbound_connection(" in r and lab == "Err", "behaviour returned Err")
    # retain runs before emptiness test
    ret_s = d.call_sites(r"Vec::retain$")
    ctx.floor("retain", "retain call", ret_s, 1)
    emp = [bi for bi in d.live if d.switch_info(bi) and render(d.switch_info(bi)[0]).startswith("std::vec::Vec::is_empty(")]
    lib.precedes(ctx, "retain", "retain before is_empty", d, lib.bbs(ret_s), emp, "addresses filtered before the emptiness test")
    # the list that is filtered is the list that is tested and dialled
    if ret_s and emp:
        recv = render(d.site_expr(ret_s[0])[2][0])
        tested = {render(d.switch_info(bi)[0][2][0]) for bi in emp if d.switch_info(bi)[0][0] == "call"}
        ctx.ob("retain", "the emptiness test looks at the filtered list", tested == {recv}, ret_s[0].loc(), "retain on %s, is_empty on %s" % (recv, sorted(tested)))
    # ---- retain closure table: keep <=> !any(listened == addr) && unique.insert(addr)
    if ret_s:
        cl = S.closure_at(prog, d, ret_s[0])
        ctx.use(cl)
        _, caps = S.closure_captures(d, d.site_expr(ret_s[0]))
        listened = S.role(prog, "swarm.listened")
        k_l = [i for i, c in enumerate(caps) if render(c) == "self." + listened]
        k_u = [i for i, c in enumerate(caps) if c[0] == "local" and re.search(r"^std::collections::HashSet<libp2p_core::Multiaddr", str(d.locals[c[1]]))]
        ctx.ob("retain", "floor:closure captures the listen addresses and a local seen-set", len(k_l) == 1 and len(k_u) == 1, nontrivial=False,
               msg=str([render(c) for c in caps]))
        if len(k_l) == 1 and len(k_u) == 1:
            any_rx = r"^std::iter::Iterator::any\(std::iter::Iterator::flatten\(std::collections::HashMap::values\(\^\*?u%d\)\), closure:.*\[p2\]\)$" % k_l[0]
            ins_rx = r"^std::collections::HashSet::insert\(\^\*?u%d, <libp2p_core::Multiaddr as std::clone::Clone>::clone\(p2\)\)$" % k_u[0]
            amap = [(any_rx, "is_listen_addr"), (ins_rx, "first_occurrence")]

            def rv(s, asg, env):
                e = cl.site_expr(s)
                v = lib.eval_bool(cl, e, asg, env, amap)
                return {"true": "keep", "false": "drop"}.get(v, "?" + render(e)[:60])
            lib.check_cells2(ctx, "retain", "keep", cl, S.ret_sites(cl), rv, amap, {"is_listen_addr": ["true", "false"], "first_occurrence": ["true", "false"]},
                             lambda a: "keep" if (a["is_listen_addr"] == "false" and a["first_occurrence"] == "true") else "drop",
                             "%s:%d" % (cl.file, cl.line))
            anyc = cl.call_sites(r"^std::iter::Iterator::any$")
            ctx.floor("retain", "listen-address search", anyc, 1)
            for a in anyc[:1]:
                inner = S.closure_at(prog, cl, a)
                ctx.use(inner)
                eqs = inner.call_sites(r"PartialEq>::eq$|PartialEq::eq$|cmp::impls::eq$")
                args = sorted(render(x) for x in inner.site_expr(eqs[0])[2]) if len(eqs) == 1 else []
                ok = len(eqs) == 1 and len(args) == 2 and args[1] == "p2" and re.match(r"^\^\*?u0$", args[0]) is not None and \
                    [render(e) for e in S.ret_exprs(inner)] == [render(inner.site_expr(eqs[0]))]
                ctx.ob("retain", "any-closure compares with addr", ok, "%s:%d" % (inner.file, inner.line),
                       "listen-address test is equality with the candidate: %s" % ([render(inner.site_expr(s)) for s in eqs]))
    # ---- dialled address = with_p2p(peer)
    c1s = [c for c in S.children(prog, d, "closure") if c.call_sites(r"Transport>::dial$|Transport::dial$")]
    ctx.ob("address", "floor:closure that starts the transport dial", len(c1s) == 1, nontrivial=False, msg=str([c.npath for c in c1s]))
    if len(c1s) == 1:
        c1 = c1s[0]
        ctx.use(c1)
        caps = None
        for s in d.stmt_sites(lambda st: st["k"] == "assign" and st["r"]["k"] == "agg" and st["r"].get("def") == c1.path):
            caps = d.site_expr(s)[2]
        k_p = [i for i, c in enumerate(caps or ()) if re.match("^" + GET_PEER + "$", render(c))]
        ctx.ob("address", "floor:dial closure captures the target peer", len(k_p) == 1, nontrivial=False, msg=str([render(c)[:60] for c in caps or ()]))
        td = c1.call_sites(r"Transport>::dial$|Transport::dial$")
        ctx.floor("address", "transport.dial call", td, 1)
        for s in td:
            e = c1.site_expr(s)
            a = e[2][1]
            mo = [c for c in mir.calls_in(a, r"^std::option::Option::map_or$")]
            ok = len(k_p) == 1 and len(mo) == 1 and re.match(r"^\^\*?u%d$" % k_p[0], render(mo[0][2][0])) is not None and \
                re.match(r"^std::result::Result::Ok\{0: <libp2p_core::Multiaddr as std::clone::Clone>::clone\(p2\)\}$", render(mo[0][2][1])) is not None
            # the address handed to the transport is the Ok payload of that map_or
            root = a
            while root[0] == "call" and re.search(r"Clone>::clone$", mir.strip_generics(root[1])):
                root = root[2][0]
            ok = ok and root[0] == "field" and root[1][0] == "downcast" and root[1][2] == "Ok" and root[1][1][0] == "call" and root[1][1][3] == mo[0][3]
            ctx.ob("address", "dial(address) originates from map_or(Ok(a), with_p2p)", ok, s.loc(), "address operand: %s" % render(a)[:160])
            for m in mo[:1]:
                c10 = S.closure_at(prog, c1, m)
                ctx.use(c10)
                _, icaps = S.closure_captures(c1, m)
                wp = c10.call_sites(r"Multiaddr::with_p2p$")
                ok = len(wp) == 1 and len(icaps) == 1 and render(icaps[0]) == "p2"
                if ok:
                    we = c10.site_expr(wp[0])
                    ok = render(we[2][1]) == "p2" and re.search(r"\^\*?u0\)*$", render(we[2][0])) is not None and \
                        [render(x) for x in S.ret_exprs(c10)] == [render(we)]
                ctx.ob("address", "with_p2p(peer)", ok, "%s:%d" % (c10.file, c10.line), "peer id appended with Multiaddr::with_p2p")
        # the peer handed to the pool for the identity check is the dial's target (C05 relies on it)
