"""C50 AutoNAT v1 server dials back only the requester's observed IP — closure decision tables (K7), strict throttling guards (K9), guards (K1), origin (K5), path counting (K2), who-writes (K4)."""
import re

from .. import lib, mir
from ..mir import render, strip_generics

EXPLANATION = ("AsServer::filter_valid_addrs: the observed ip is the first Ip4/Ip6 component of the observed address (none => no addresses); the "
               "per-address closure yields Some only through distinct.insert(..).then_some(addr) on the true edge of the validity test; the "
               "validity closure's decision table over all Protocol variants is P2pCircuit -> false, P2p(id) -> id == peer, Ip4|Ip6 -> == "
               "observed_ip, other -> true, evaluated over the address after the replacement; the first ip component (position of Ip4|Ip6) is "
               "replaced by a clone of the observed ip; /p2p/<peer> is appended unless the last component is already a (validated) /p2p. "
               "resolve_inbound_request: Ok(addrs) is dominated by request.peer_id == sender, by no ongoing dial-back for the sender, by the "
               "false edges of `throttled.len() >= global_max` and `count(p == sender) >= peer_max` (strict), addrs come from "
               "filter_valid_addrs(sender, request.addresses, observed address of sender's own connections) truncated to max_peer_addresses "
               "and are non-empty. handle_event: ToSwarm::Dial, ongoing_inbound.insert(peer) and throttled_clients.push((peer, now)) happen "
               "exactly once each, only on the Ok edge of resolve_inbound_request(peer, request), the dialled addresses are exactly the "
               "resolved ones for DialOpts::peer_id(peer); no other server code dials, inserts or pushes; throttle entries are only expired "
               "by the `time + period < now` prefix drain.")
ASSUMPTIONS = ["Multiaddr::replace / push / iter semantics", "DNS components are not IP components and are not restricted by the property",
               "throttle expiry arithmetic over Instants is not decided", "the observed address recorded in `connected` is the swarm's remote address of a non-relayed connection"]
AN = "libp2p_autonat"
FVA = r"^libp2p_autonat::v1::behaviour::as_server::AsServer::filter_valid_addrs"
IPS = {"Ip4", "Ip6"}

SELFTEST = [
    {"mutation": "is_valid without the Ip4|Ip6 arm (the tree before the F13 fix 596c3cd) / only Ip4 checked", "caught_by": "filter/validity table: Ip4|Ip6 -> == observed ip"},
    {"mutation": "`any(P2p)` instead of `last() is P2p` before appending the peer id (the tree before the F13 fix)", "caught_by": "filter/peer id appended unless the address already ends with /p2p"},
    {"mutation": "P2pCircuit => true", "caught_by": "filter/validity table: P2pCircuit -> false"},
    {"mutation": "P2p(_) => true", "caught_by": "filter/validity table: P2p(id) -> id == peer"},
    {"mutation": "`if !is_valid { return None }` removed", "caught_by": "filter/an address is kept only if it is valid"},
    {"mutation": "validity evaluated on the address before the ip replacement", "caught_by": "filter/validity is tested on the address after the replacement"},
    {"mutation": "global throttle `>`", "caught_by": "throttle/global limit is strict"},
    {"mutation": "per-peer throttle compares with global_max", "caught_by": "throttle/per-peer limit is strict"},
    {"mutation": "per-peer count `p != &sender`", "caught_by": "throttle/per-peer count matches the sender"},
    {"mutation": "ongoing_inbound.contains_key check disabled", "caught_by": "throttle/one dial-back per peer"},
    {"mutation": "throttled_clients.push removed from handle_event", "caught_by": "dial/every accepted request is counted for throttling"},
    {"mutation": "dial uses request.addresses when longer than the resolved addrs", "caught_by": "dial/dialled addresses are the resolved ones"},
]


def ret_exprs(b):
    return [(mir.Site(b, d[1], d[2]), b.site_expr(mir.Site(b, d[1], d[2]))) for d in b.defs.get(0, [])]


def variant_table(b, switch_pat=r"^discr\((p|proto)\)$"):
    """variant -> rendered result for a closure of the form `|p| match p {..}` returning bool/values per arm."""
    tab = {}
    for s, e in ret_exprs(b):
        labs = None
        for text, labels, _, _ in b.guards_on_all_paths(s.bb):
            if re.search(switch_pat, text):
                labs = set(labels)
        if labs is None:
            tab.setdefault("*", set()).add(render(e))
            continue
        for l in labs:
            tab.setdefault(l, set()).add(render(e))
    return tab


def check(ctx):
    mir.RENDER_MAX[0] = 30
    try:
        _check(ctx, ctx.prog)
    finally:
        mir.RENDER_MAX[0] = 14


def _check(ctx, prog):
    # ================================================================= filter_valid_addrs
    f = ctx.body(AN, FVA + "$")
    OBS = None
    fn = f.call_sites(r"Iterator::find$")
    ctx.floor("filter", "search for the observed ip", fn, 1, exact=True)
    for s in fn:
        e = f.site_expr(s)
        a0 = e[2][0]
        ctx.ob("filter", "the observed ip is searched in the observed address", a0[0] == "call" and a0[2][0][0] == "arg" and a0[2][0][1] == 3, s.loc(), render(a0))
        cl = lib.closure_of(prog, f, e)
        vs = lib.matches_variants(cl) if cl is not None else None
        ctx.ob("filter", "observed ip = first Ip4/Ip6 component", vs == IPS, s.loc(), str(vs))
        OBS = render(e) + "@Some.0"
    none = lib.switch_edges_on(f, r"^discr\(std::iter::Iterator::find\(", {"None"})
    rs = ret_exprs(f)
    empty = [s.bb for s, e in rs if render(e) == "std::vec::Vec::new()"]
    got = lib.count_range(f, [t for _, t in none], f.return_blocks(), empty) if none else None
    fm_reach = any(s.bb in f.reachable([t for _, t in none]) for s in f.call_sites(r"Iterator::filter_map$")) if none else True
    ctx.ob("filter", "no observed ip => nothing is dialled", got == (1, 1) and not fm_reach, "%s:%d" % (f.file, f.line), "Vec::new() on the None edge: %s" % (got,))
    fm = f.call_sites(r"Iterator::filter_map$")
    ctx.floor("filter", "filter_map over the demanded addresses", fm, 1, exact=True)
    res = [e for s, e in rs if render(e) != "std::vec::Vec::new()"]
    ctx.ob("filter", "the result is exactly the filtered demanded addresses", len(res) == 1 and render(res[0]).startswith("std::iter::Iterator::collect(std::iter::Iterator::filter_map(<std::vec::Vec as std::iter::IntoIterator>::into_iter(demanded), closure:"),
           msg=render(res[0])[:140] if res else "")
    c1 = lib.closure_of(prog, f, f.site_expr(fm[0])) if fm else None
    if c1 is None:
        raise mir.RuleError("filter_map closure not found")
    ctx.use(c1)
    ce = [x for x in mir.walk(f.site_expr(fm[0])) if x[0] == "closure"][0]
    ups = [render(u) for u in ce[2]]
    ctx.ob("filter", "the per-address closure captures the observed ip and the requester", OBS in ups and "peer" in ups, fm[0].loc(), str([u[-50:] for u in ups]))
    # results of the per-address closure
    allc = c1.call_sites(r"Iterator::all$")
    ctx.floor("filter", "validity test", allc, 1, exact=True)
    te = lib.switch_edges_on_site(c1, allc[0], {"true"}) if allc else set()
    pos = 0
    for s, e in ret_exprs(c1):
        r = render(e)
        if r == "std::option::Option::None{}" or (e[0] == "call" and strip_generics(e[1]).endswith("FromResidual>::from_residual")):
            continue
        pos += 1
        ok = bool(te) and c1.must_pass_edges(s.bb, te)
        ctx.ob("filter", "an address is kept only if it is valid", ok, s.loc(), "Some(addr) is reachable only through the true edge of the validity test" if ok else "a kept address bypasses the validity test: %s" % r[:100])
        ctx.ob("filter", "only distinct addresses are kept", r == "core::bool::then_some(std::collections::HashSet::insert(^distinct, <libp2p_core::Multiaddr as std::clone::Clone>::clone(addr)), addr)", s.loc(), r[:140])
    ctx.ob("filter", "floor:kept result", pos == 1, nontrivial=False, msg=str(pos))
    # replacement
    rep = c1.call_sites(r"Multiaddr::replace$")
    ctx.floor("filter", "replacement of the demanded ip", rep, 1, exact=True)
    for s in rep:
        e = c1.site_expr(s)
        pc = lib.closure_of(prog, c1, e[2][1])
        vs = lib.matches_variants(pc) if pc is not None else None
        ctx.ob("filter", "the replaced component is the first Ip4/Ip6 of the demanded address", vs == IPS and render(e[2][1]).startswith("<std::option::Option as std::ops::Try>::branch(std::iter::Iterator::position(libp2p_core::Multiaddr::iter(addr), closure:") and
               render(e[2][0]) == "addr", s.loc(), str(vs))
        rc = lib.closure_of(prog, c1, e[2][2])
        rr = [render(x) for _, x in ret_exprs(rc)] if rc is not None else []
        ctx.ob("filter", "it is replaced by the observed ip", rr == ["std::option::Option::Some{0: <libp2p_core::multiaddr::Protocol as std::clone::Clone>::clone(^observed_ip)}"], s.loc(), str(rr))
    # the validated address is the replaced one (local `addr` re-bound)
    for s in allc:
        e = c1.site_expr(s)
        a = e[2][0]
        ok = a[0] == "call" and strip_generics(a[1]).endswith("Multiaddr::iter") and a[2][0][0] == "local"
        src = render(c1.init_expr(a[2][0][1])) if ok else ""
        ctx.ob("filter", "validity is tested on the address after the replacement", ok and src.startswith("<std::option::Option as std::ops::Try>::branch(libp2p_core::Multiaddr::replace(") and bool(rep) and c1.dominates(rep[0].bb, s.bb), s.loc(), src[:120])
        vc = lib.closure_of(prog, c1, e)
        if vc is None:
            ctx.ob("filter", "validity closure found", False, s.loc())
            continue
        ctx.use(vc)
        tab = variant_table(vc)
        ctx.ob("filter", "validity table: P2pCircuit -> false", tab.get("P2pCircuit") == {"0"}, "%s:%d" % (vc.file, vc.line), str(tab.get("P2pCircuit")))
        ctx.ob("filter", "validity table: P2p(id) -> id == peer", tab.get("P2p") == {"<libp2p_core::PeerId as std::cmp::PartialEq>::eq(proto@P2p.0, ^peer)"}, "%s:%d" % (vc.file, vc.line), str(tab.get("P2p")))
        ipok = all(len(tab.get(k, ())) == 1 and re.match(r"^(<libp2p_core::multiaddr::Protocol as std::cmp::PartialEq>::eq|std::cmp::PartialEq::eq|std::cmp::impls::eq)\((proto, \^observed_ip|\^observed_ip, proto)\)$", next(iter(tab[k]))) is not None for k in IPS)
        ctx.ob("filter", "validity table: Ip4|Ip6 -> == observed ip", ipok, "%s:%d" % (vc.file, vc.line),
               "Ip4 -> %s, Ip6 -> %s%s" % (tab.get("Ip4"), tab.get("Ip6"), "" if ipok else " — an ip component other than the replaced one passes unchecked, so the server can be made to dial a foreign ip"))
        rest = {k: v for k, v in tab.items() if k not in IPS | {"P2p", "P2pCircuit"}}
        ctx.ob("filter", "validity table: other components pass", len(rest) > 20 and all(v == {"1"} for v in rest.values()), "%s:%d" % (vc.file, vc.line), "%d other variants -> %s" % (len(rest), sorted({x for v in rest.values() for x in v})))
        ups_v = [render(u) for u in [x for x in mir.walk(e) if x[0] == "closure"][0][2]]
        ctx.ob("filter", "validity compares with the requester and the observed ip of this request", "^peer" in ups_v and (not ipok or "^observed_ip" in ups_v), s.loc(), str(ups_v))
    # peer id appended
    push = [s for s in c1.call_sites(r"Multiaddr::push$") if render(c1.site_expr(s)) == "libp2p_core::Multiaddr::push(addr, libp2p_core::multiaddr::Protocol::P2p{0: ^peer})"]
    ctx.floor("filter", "append /p2p/<peer>", push, 1, exact=True)
    LAST = r"^discr\(std::iter::Iterator::last\(libp2p_core::Multiaddr::iter\(addr\)\)\)$"
    LASTV = r"^discr\(std::iter::Iterator::last\(libp2p_core::Multiaddr::iter\(addr\)\)@Some\.0\)$"
    skip = set()
    for bi in c1.live:
        info = c1.switch_info(bi)
        if info and re.search(LASTV, render(info[0])):
            for tg, ls in info[1].items():
                if ls == {"P2p"}:
                    skip.add((bi, tg))
    # `matches!(addr.iter().last(), Some(P2p(_)))` lowers to a bool local that is 1 only on the P2p arm: its true edges count as well
    for bi in c1.live:
        info = c1.switch_info(bi)
        if not info:
            continue
        cond, labs = info
        neg = False
        while cond[0] == "un" and cond[1] == "Not":
            cond, neg = cond[2], not neg
        if cond[0] != "local":
            continue
        ds = c1.defs.get(cond[1], [])
        vals = [(d, c1.rvalue_expr(d[3])) for d in ds if d[0] == "stmt"]
        if len(vals) != len(ds) or not vals or any(v[0] != "const" or v[1] not in (0, 1) for _, v in vals):
            continue
        ones = [d for d, v in vals if v[1] == 1]
        sound = bool(ones) and all(any(re.search(LASTV, text) and set(labels) == {"P2p"} for text, labels, _, _ in c1.guards_on_all_paths(d[1])) for d in ones)
        if not sound:
            continue
        for tg, ls in labs.items():
            if ls == {"false" if neg else "true"}:
                skip.add((bi, tg))
    kept = [s for s, e in ret_exprs(c1) if render(e).startswith("core::bool::then_some(")]
    ok = bool(push) and bool(skip) and bool(kept) and all(c1.must_pass_edges(k.bb, set(skip) | {(p_, c1.succ[p_][0]) for p_ in lib.bbs(push)}, allc[0].bb if allc else 0) for k in kept)
    why = "every kept address either already ends with /p2p (validated == peer) or gets /p2p/<peer> appended"
    if not ok:
        why = "a kept address may not end with the requester's peer id: the append is skipped on a test other than `last component is /p2p`"
    ctx.ob("filter", "peer id appended unless the address already ends with /p2p", ok, push[0].loc() if push else "", why)
    # ================================================================= resolve_inbound_request
    r = ctx.body(AN, r"^libp2p_autonat::v1::behaviour::as_server::AsServer::resolve_inbound_request$")
    oks = [(s, e) for s, e in ret_exprs(r) if e[0] == "agg" and e[3] == "Ok"]
    ctx.floor("throttle", "Ok result of resolve_inbound_request", oks, 1, exact=True)
    CNT = r"^<std::iter::Filter as std::iter::Iterator>::count\(std::iter::Iterator::filter\(core::slice::iter\(<std::vec::Vec as std::ops::Deref>::deref\(self\.throttled_clients\)\), closure:[^\[]*\[sender\]\)\)$"
    for s, e in oks:
        lib.limit_guard(ctx, "throttle", "global limit is strict", s, r"^std::vec::Vec::len\(self\.throttled_clients\)$", r"^self\.config\.throttle_clients_global_max$", "throttled_clients.len() < throttle_clients_global_max")
        lib.limit_guard(ctx, "throttle", "per-peer limit is strict", s, CNT, r"^self\.config\.throttle_clients_peer_max$", "count(throttled entries of sender) < throttle_clients_peer_max")
        ctx.guarded("throttle", "one dial-back per peer", s, lambda c, rr, l: l == "false" and rr == "std::collections::HashMap::contains_key(self.ongoing_inbound, sender)", "no ongoing dial-back for the sender")
        ctx.guarded("throttle", "the request names its sender", s, lambda c, rr, l: (l == "false" and rr == "std::cmp::PartialEq::ne(request.peer_id, sender)") or (l == "true" and rr == "std::cmp::PartialEq::eq(request.peer_id, sender)"), "request.peer_id == sender")
        ctx.guarded("throttle", "at least one address", s, lambda c, rr, l: l == "false" and rr == "std::vec::Vec::is_empty(addrs)", "!addrs.is_empty()")
        ctx.ob("throttle", "Ok carries the filtered addresses", render(e) == "std::result::Result::Ok{0: addrs}", s.loc(), render(e))
    al = [l for l, n in r.names.items() if n == "addrs"]
    src = render(r.init_expr(al[0])) if len(al) == 1 else ""
    ok = src.startswith("libp2p_autonat::v1::behaviour::as_server::AsServer::filter_valid_addrs(sender, request.addresses, <std::result::Result as std::ops::Try>::branch(std::option::Option::ok_or_else(std::iter::Iterator::find_map("
                        "std::collections::HashMap::values(std::option::Option::expect(std::collections::HashMap::get(self.connected, sender), 'Peer is connected.')), closure:")
    ctx.ob("throttle", "addresses = filter_valid_addrs(sender, request.addresses, an observed address of the sender's connections)", ok, "%s:%d" % (r.file, r.line), src[:200])
    tr = [s for s in r.call_sites(r"Vec::truncate$") if render(r.site_expr(s)) == "std::vec::Vec::truncate(addrs, self.config.max_peer_addresses)"]
    ok = len(tr) == 1 and bool(oks) and lib.count_range(r, [0], [oks[0][0].bb], lib.bbs(tr)) == (1, 1)
    ctx.ob("throttle", "at most max_peer_addresses are dialled", ok, tr[0].loc() if tr else "", "addrs.truncate(max_peer_addresses) on every path to Ok")
    cl = [c for c in prog.children(r) if c.kind == "closure"]
    txt = {c.npath.split("::")[-1]: [render(x) for _, x in ret_exprs(c)] for c in cl}
    ctx.ob("throttle", "per-peer count matches the sender", ["std::cmp::impls::eq(arg2.0, ^sender)"] in txt.values() or ["<libp2p_core::PeerId as std::cmp::PartialEq>::eq(arg2.0, ^sender)"] in txt.values(), msg=str(txt)[:300])
    exp = [v for v in txt.values() if v and "partial" not in v[0] and re.match(r"^std::cmp::PartialOrd::lt\(<web_time::Instant as std::ops::Add>::add\(arg2\.1, \^\**self\.config\.throttle_clients_period\), web_time::Instant::now\(\)\)$", v[0])]
    dr = [render(r.site_expr(s)) for s in r.call_sites(r"Vec::drain$")]
    ok = len(exp) == 1 and len(dr) == 1 and dr[0].startswith("std::vec::Vec::drain(self.throttled_clients, std::ops::RangeTo::RangeTo{end: core::slice::partition_point(<std::vec::Vec as std::ops::Deref>::deref(self.throttled_clients), closure:")
    ctx.ob("throttle", "only expired entries (time + period < now) are forgotten", ok, "%s:%d" % (r.file, r.line), str(dr)[:160])
    # ================================================================= handle_event
    h = ctx.body(AN, r"^libp2p_autonat::<v1::behaviour::as_server::AsServer as v1::behaviour::HandleInnerEvent>::handle_event$")
    hrets = h.return_blocks()
    rc = h.call_sites(r"AsServer::resolve_inbound_request$")
    ctx.floor("dial", "resolve_inbound_request call", rc, 1, exact=True)
    RES = render(h.site_expr(rc[0])) if rc else "?"
    ctx.ob("dial", "the request is resolved for the peer that sent it", RES == "libp2p_autonat::v1::behaviour::as_server::AsServer::resolve_inbound_request(self, event@Message.peer, event@Message.message@Request.request)", rc[0].loc() if rc else "", RES)
    oke = [t for _, t in lib.switch_edges_on_site(h, rc[0], {"Ok"})] if rc else []
    erre = [t for _, t in lib.switch_edges_on_site(h, rc[0], {"Err"})] if rc else []
    dial = [s for s in h.call_sites(r"WithPeerIdWithAddresses::build$|dial_opts::.*::build$")]
    ins = [s for s in h.call_sites(r"HashMap::insert$") if render(h.site_expr(s)[2][0]) == "self.ongoing_inbound"]
    psh = [s for s in h.call_sites(r"Vec::push$") if render(h.site_expr(s)[2][0]) == "self.throttled_clients"]
    ctx.floor("dial", "DialOpts build", dial, 1, exact=True)
    ctx.floor("dial", "ongoing_inbound.insert", ins, 1, exact=True)
    ctx.floor("dial", "throttled_clients.push", psh, 1, exact=True)
    if oke:
        for nm, sites in (("a dial-back is issued", dial), ("the dial-back is registered as ongoing", ins), ("every accepted request is counted for throttling", psh)):
            got = lib.count_range(h, oke, hrets, lib.bbs(sites))
            ctx.ob("dial", nm, got == (1, 1), sites[0].loc() if sites else "", "on the Ok edge of resolve_inbound_request: %s (expected (1, 1))" % (got,))
    for sites, nm in ((dial, "dial"), (ins, "ongoing_inbound.insert"), (psh, "throttled_clients.push")):
        for s in sites:
            ok = bool(oke) and h.must_pass_nodes([0], [s.bb], oke)
            ctx.ob("dial", "%s only for an accepted request" % nm, ok, s.loc(), "reachable only through the Ok edge of resolve_inbound_request")
    for s in dial:
        e = render(h.site_expr(s))
        ctx.ob("dial", "dialled addresses are the resolved ones", "WithPeerId::addresses(" in e and e.count(RES + "@Ok.0") >= 1 and re.search(r"WithPeerId::addresses\(.*, %s@Ok\.0\)" % re.escape(RES), e) is not None, s.loc(), e[-200:])
        ctx.ob("dial", "the dial-back targets the requester", "libp2p_swarm::dial_opts::DialOpts::peer_id(event@Message.peer)" in e, s.loc(), "")
    for s in ins:
        a = [render(x) for x in h.site_expr(s)[2]]
        ctx.ob("dial", "ongoing dial-back is keyed by the requester and remembers the resolved addresses", a[1] == "event@Message.peer" and "2: <std::vec::Vec as std::clone::Clone>::clone(%s@Ok.0)" % RES in a[2], s.loc(), a[2][:160])
    for s in psh:
        a = render(h.site_expr(s)[2][1])
        ctx.ob("dial", "the throttle entry names the requester", a == "tuple{0: event@Message.peer, 1: web_time::Instant::now()}", s.loc(), a)
    # who else dials / registers in the server module
    who = {"dial": set(), "insert": set(), "push": set()}
    for b in prog.bodies(AN):
        if "v1::behaviour::as_server" not in b.npath:
            continue
        for s in b.stmt_sites(lambda st: st["k"] == "assign" and st["r"]["k"] == "agg" and st["r"]["ak"] == "adt" and strip_generics(st["r"]["adt"]) == "libp2p_swarm::ToSwarm" and st["r"]["variant"] == "Dial"):
            who["dial"].add(b.npath)
        for s in b.call_sites(r"HashMap::(insert|entry)$"):
            if "ongoing_inbound" in render(b.site_expr(s)[2][0]):
                who["insert"].add(b.npath)
        for s in b.call_sites(r"Vec::(push|insert|extend|append)$"):
            if "throttled_clients" in render(b.site_expr(s)[2][0]):
                who["push"].add(b.npath)
    ctx.ob("dial", "only handle_event dials, registers and counts", all(v == {h.npath} for v in who.values()), msg=str({k: sorted(v) for k, v in who.items()}))
    rem = set()
    for b in prog.bodies(AN):
        if "v1::behaviour" not in b.npath:
            continue
        for s in b.call_sites(r"Vec::(drain|clear|retain|remove|pop|truncate)$"):
            if "throttled_clients" in render(b.site_expr(s)[2][0]):
                rem.add(b.npath)
    ctx.ob("throttle", "throttle entries are forgotten only by the expiry drain", rem == {r.npath}, msg=str(sorted(rem)))
