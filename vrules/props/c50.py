"""C50 AutoNAT v1 server dials back only the requester's observed IP — closure decision tables (K7), strict throttling guards (K9), guards (K1), origin (K5), path counting (K2), who-writes (K4)."""
import re

from .. import lib, mir
from .. import lib_proto as P
from ..mir import strip_generics

EXPLANATION = ("AsServer::filter_valid_addrs: the observed ip is the first Ip4/Ip6 component of the observed address (none => no addresses); the "
               "per-address closure yields Some only through distinct.insert(..).then_some(addr) on the true edge of the validity test; the "
               "validity closure's decision table over all Protocol variants is P2pCircuit -> false, P2p(id) -> id == peer, Ip4|Ip6 -> == "
               "observed_ip, other -> true, evaluated over the address after the replacement; the first ip component (position of Ip4|Ip6) is "
               "replaced by a clone of the observed ip; /p2p/<peer> is appended unless the last component is already a (validated) /p2p. "
               "resolve_inbound_request: Ok(addrs) is dominated by request.peer_id == sender, by no ongoing dial-back for the sender, by the "
               "false edges of `throttled.len() >= global_max` and `count(p == sender) >= peer_max` (strict), addrs come from "
               "filter_valid_addrs(sender, request.addresses, observed address of sender's own connections) truncated to max_peer_addresses "
               "and are non-empty. handle_event: ToSwarm::Dial, ongoing_inbound.insert(peer) and throttled_clients.push((peer, now)) happen "
               "exactly once each, only on the Ok edge of resolve_inbound_request(peer, request), the dialled addresses are exactly the "
               "resolved ones for DialOpts::peer_id(peer); no other server code dials, inserts or pushes; throttle entries are only expired "
               "by the `time + period < now` prefix drain.")
ASSUMPTIONS = ["Multiaddr::replace / push / iter semantics", "DNS components are not IP components and are not restricted by the property",
               "throttle expiry arithmetic over Instants is not decided", "the observed address recorded in `connected` is the swarm's remote address of a non-relayed connection"]
AN = "libp2p_autonat"
FVA = r"^libp2p_autonat::v1::behaviour::as_server::AsServer::filter_valid_addrs"
SADT = r"^libp2p_autonat::v1::behaviour::as_server::AsServer$"
IPS = {"Ip4", "Ip6"}

SELFTEST = [
    {"mutation": "is_valid without the Ip4|Ip6 arm (the tree before the F13 fix 596c3cd)", "caught_by": "filter/validity table: Ip4|Ip6 -> == observed ip"},
    {"mutation": "seeded/C50: validity arm narrowed to `Ip4(_) => proto == observed_ip`", "caught_by": "filter/validity table: Ip4|Ip6 -> == observed ip"},
    {"mutation": "`any(P2p)` instead of `last() is P2p` before appending the peer id (the tree before the F13 fix)", "caught_by": "filter/peer id appended unless the address already ends with /p2p"},
    {"mutation": "P2pCircuit => true", "caught_by": "filter/validity table: P2pCircuit -> false"},
    {"mutation": "P2p(_) => true", "caught_by": "filter/validity table: P2p(id) -> id == peer"},
    {"mutation": "`if !is_valid { return None }` removed", "caught_by": "filter/an address is kept only if it is valid"},
    {"mutation": "validity evaluated on the address before the ip replacement", "caught_by": "filter/validity is tested on the address after the replacement"},
    {"mutation": "global throttle `>`", "caught_by": "throttle/global limit is strict"},
    {"mutation": "per-peer throttle compares with global_max", "caught_by": "throttle/per-peer limit is strict"},
    {"mutation": "per-peer count `p != &sender`", "caught_by": "throttle/per-peer count matches the sender"},
    {"mutation": "ongoing_inbound.contains_key check disabled", "caught_by": "throttle/one dial-back per peer"},
    {"mutation": "throttled_clients.push removed from handle_event", "caught_by": "dial/every accepted request is counted for throttling"},
    {"mutation": "dial uses request.addresses when longer than the resolved addrs", "caught_by": "dial/dialled addresses are the resolved ones"},
]


def variant_table(prog, b, subject=lambda e: e[0] == "arg" and e[1] == 2):
    """variant -> set of root-resolved normalised results for a closure `|p| match p {..}`."""
    tab = {}
    for s, e in P.ret_exprs(b):
        labs = P.known_labels(b, s.bb, subject)
        c = P.cmpnf(e)
        if c is not None and c[0] in ("Eq", "Ne"):
            sides = sorted([P.rr(prog, b, c[1]), P.rr(prog, b, c[2])])
            txt = "%s(%s, %s)" % (c[0], sides[0], sides[1])
        else:
            txt = P.Norm(b).r(e)
        for l in (labs if labs else {"*"}):
            tab.setdefault(l, set()).add(txt)
    return tab


def matches_set(prog, body, e):
    cs = P.closures_in(prog, body, e)
    return lib.matches_variants(cs[0][1]) if cs else None


def check(ctx):
    _check(ctx, ctx.prog)


def _check(ctx, prog):
    # ================================================================= filter_valid_addrs(peer = $1, demanded = $2, observed_remote_at = $3)
    f = ctx.body(AN, FVA + "$")
    N = P.Norm(f)
    fn = f.call_sites(r"Iterator::find$")
    ctx.floor("filter", "search for the observed ip", fn, 1, exact=True)
    OBS = None
    for s in fn:
        e = f.site_expr(s)
        ctx.ob("filter", "the observed ip is searched in the observed address", any(x[0] == "arg" and x[1] == 3 for x in mir.walk(e[2][0])) and P.call_is(e[2][0], r"into_iter$|::iter$"), s.loc(), N.r(e[2][0]))
        vs = matches_set(prog, f, e)
        ctx.ob("filter", "observed ip = first Ip4/Ip6 component", vs == IPS, s.loc(), str(vs))
        OBS = N.r(e) + "@+"
    none = P.outcome_edges(f, lambda e: bool(fn) and e[0] == "call" and e[3] == fn[0].bb, False)
    E = P.elementwise(prog, f)
    if E is None:
        raise mir.RuleError("filter_valid_addrs: neither a filter_map adaptor nor a for-loop producing the result was recognised")
    B = E.body
    ctx.use(B)
    BN = P.Norm(B, ids=True)
    rs = P.ret_exprs(f)
    empty = [s.bb for s, e in rs if N.r(e) in ("std::vec::Vec::new()", "<std::vec::Vec as std::default::Default>::default()")]
    got = lib.count_range(f, P.targets(none), f.return_blocks(), empty) if none else None
    reach = E.site.bb in f.reachable(P.targets(none)) if none else True
    ctx.ob("filter", "no observed ip => nothing is dialled", got == (1, 1) and not reach, "%s:%d" % (f.file, f.line), "empty result on the None edge: %s; address processing reachable: %s" % (got, reach))
    ctx.ob("filter", "the result is produced element by element from the demanded addresses", N.r(E.source) == "$2", E.site.loc(), "%s form over %s" % (E.kind, N.r(E.source)))
    if E.kind == "adaptor":
        res = [e for s, e in rs if s.bb not in empty]
        ok = len(res) == 1 and P.call_is(res[0], r"Iterator::collect$") and res[0][2][0][0] == "call" and res[0][2][0][3] == E.site.bb
        ctx.ob("filter", "nothing but the filtered addresses is returned", ok, E.site.loc(), N.r(res[0])[:120] if res else "")
    else:
        outs = {e[1] for _, e in rs if e[0] == "local"}
        pushes = [s for s in f.call_sites(r"Vec::(push|insert|extend|append|extend_from_slice)$") if f.site_expr(s)[2][0][0] == "local" and f.site_expr(s)[2][0][1] in outs]
        ok = len(outs) == 1 and {s.bb for s in pushes} == {k[0].bb for k in E.keeps} and all(e[0] == "local" or s.bb in empty for s, e in rs)
        ctx.ob("filter", "nothing but the filtered addresses is returned", ok, E.site.loc(), "pushes into the returned vector: %d, all inside the per-address loop" % len(pushes))
    region = B.reachable([E.entry], stop_nodes=E.ends)
    got = lib.count_range(B, [E.entry], E.ends, [k[0].bb for k in E.keeps])
    ctx.ob("filter", "each demanded address yields at most one dial-back address", got is not None and got[1] <= 1 and len(E.keeps) >= 1, E.site.loc(), "kept results per demanded address: %s" % (got,))
    # ---- the validity test
    allc = [s for s in B.call_sites(r"Iterator::all$") if s.bb in region]
    ctx.floor("filter", "validity test", allc, 1, exact=True)
    te = P.truth_edges(B, P.is_call_at(allc[0]), True, E.entry) if allc else set()
    dins = [s for s in B.call_sites(r"HashSet::insert$") if s.bb in region]
    for ks, kexpr, kcond in E.keeps:
        ok = bool(te) and B.must_pass_edges(ks.bb, te, E.entry)
        ctx.ob("filter", "an address is kept only if it is valid", ok, ks.loc(), "the kept result is reachable only through the true edge of the validity test" if ok else "a kept address bypasses the validity test")
        d_ok = False
        if kcond is not None:
            d_ok = kcond[0] == "call" and any(kcond[3] == d.bb for d in dins)
        elif dins:
            d_ok = B.must_pass_edges(ks.bb, P.truth_edges(B, P.is_call_at(dins[0]), True, E.entry), E.entry)
        ctx.ob("filter", "only distinct addresses are kept", d_ok and len(dins) == 1, ks.loc(), "kept only when distinct.insert(addr.clone()) returned true")
    # ---- replacement and the validated address
    rep = [s for s in B.call_sites(r"Multiaddr::replace$") if s.bb in region]
    ctx.floor("filter", "replacement of the demanded ip", rep, 1, exact=True)
    ELEM = BN.r(E.elem)
    for s in rep:
        e = B.site_expr(s)
        vs = matches_set(prog, B, e[2][1])
        pos = BN.r(e[2][1])
        ctx.ob("filter", "the replaced component is the first Ip4/Ip6 of the demanded address", vs == IPS and pos == "std::iter::Iterator::position(libp2p_core::Multiaddr::iter(%s), closure[])@+" % ELEM and BN.r(e[2][0]) == ELEM, s.loc(), pos[:160])
        rcs = P.closures_in(prog, B, e[2][2])
        rr_ = []
        for _, rc in rcs[:1]:
            for _, x in P.ret_exprs(rc):
                if x[0] == "agg" and x[3] == "Some":
                    v = dict(x[4])["0"]
                    inner = v[2][0] if P.call_is(v, r"Clone>::clone$|Clone::clone$") else v
                    rr_.append(P.rr(prog, rc, inner))
                else:
                    rr_.append("?" + P.Norm(rc).r(x))
        ctx.ob("filter", "it is replaced by the observed ip", rr_ == [OBS], s.loc(), str(rr_)[:200])
    VL = None
    for s in allc:
        e = B.site_expr(s)
        a = e[2][0]
        ok = P.call_is(a, r"Multiaddr::iter$") and a[2][0][0] == "local"
        VL = a[2][0][1] if ok else None
        src = BN.r(B.init_expr(VL)) if ok else ""
        ctx.ob("filter", "validity is tested on the address after the replacement", ok and bool(rep) and src == BN.site(rep[0]) + "@+" and B.dominates(rep[0].bb, s.bb), s.loc(), src[:120])
        vcs = P.closures_in(prog, B, e[2][1])
        if not vcs:
            ctx.ob("filter", "validity closure found", False, s.loc())
            continue
        vc = vcs[0][1]
        ctx.use(vc)
        tab = variant_table(prog, vc)
        where = "%s:%d" % (vc.file, vc.line)
        ctx.ob("filter", "validity table: P2pCircuit -> false", tab.get("P2pCircuit") == {"0"}, where, str(tab.get("P2pCircuit")))
        ctx.ob("filter", "validity table: P2p(id) -> id == peer", tab.get("P2p") == {"Eq($1, $2@P2p)"}, where, str(tab.get("P2p")))
        want_ip = {"Eq(%s, %s)" % tuple(sorted(["$2", OBS]))}
        ipok = all(tab.get(k) == want_ip for k in IPS)
        ctx.ob("filter", "validity table: Ip4|Ip6 -> == observed ip", ipok, where,
               "Ip4 -> %s, Ip6 -> %s%s" % (str(tab.get("Ip4"))[:90], str(tab.get("Ip6"))[:90], "" if ipok else " — an ip component other than the replaced one passes unchecked, so the server can be made to dial a foreign ip"))
        rest = {k: v for k, v in tab.items() if k not in IPS | {"P2p", "P2pCircuit"}}
        ctx.ob("filter", "validity table: other components pass", len(rest) > 20 and all(v == {"1"} for v in rest.values()), where, "%d other variants -> %s" % (len(rest), sorted({x for v in rest.values() for x in v})))
    for ks, kexpr, kcond in E.keeps:
        if kexpr is not None:
            ctx.ob("filter", "the kept address is the validated one", kexpr[0] == "local" and kexpr[1] == VL, ks.loc(), BN.r(kexpr))
    # ---- peer id appended
    push = []
    for s in B.call_sites(r"Multiaddr::push$"):
        e = B.site_expr(s)
        if s.bb in region and e[2][0][0] == "local" and e[2][0][1] == VL and e[2][1][0] == "agg" and e[2][1][3] == "P2p" and P.rr(prog, B, dict(e[2][1][4])["0"]) == "$1":
            push.append(s)
    ctx.floor("filter", "append /p2p/<peer>", push, 1, exact=True)
    LASTV = "std::iter::Iterator::last(libp2p_core::Multiaddr::iter(%%%s))@+" % VL
    skip = B.derive_edges(P.variant_edges(B, lambda e: BN.r(e) == LASTV, {"P2p"}), None, E.entry)
    after_push = {(pb, B.succ[pb][0]) for pb in lib.bbs(push)}
    ok = bool(push) and bool(skip) and bool(allc) and all(B.must_pass_edges(k[0].bb, set(skip) | after_push, allc[0].bb) for k in E.keeps)
    why = "every kept address either already ends with /p2p (validated == peer) or gets /p2p/<peer> appended"
    if not ok:
        why = "a kept address may not end with the requester's peer id: the append is skipped on a test other than `last component is /p2p`"
    ctx.ob("filter", "peer id appended unless the address already ends with /p2p", ok, push[0].loc() if push else "", why)
    # ================================================================= resolve_inbound_request(self, sender = $2, request = $3)
    F_THR = P.field_by_type(prog, AN, SADT, r"Vec<\(")                                   # throttled_clients
    F_ONG = P.field_by_type(prog, AN, SADT, r"HashMap<libp2p_core::PeerId, \(")           # ongoing_inbound
    F_CON = P.field_by_type(prog, AN, SADT, r"HashMap<libp2p_core::PeerId, std::collections::HashMap<")   # connected
    F_CFG = P.field_by_type(prog, AN, SADT, r"Config$")
    THR, ONG, CON, CFG = "self." + F_THR, "self." + F_ONG, "self." + F_CON, "self." + F_CFG
    r = ctx.body(AN, r"^libp2p_autonat::v1::behaviour::as_server::AsServer::resolve_inbound_request$")
    R = P.Norm(r)
    oks = [(s, e) for s, e in P.ret_exprs(r) if e[0] == "agg" and e[3] == "Ok"]
    ctx.floor("throttle", "Ok result of resolve_inbound_request", oks, 1, exact=True)
    LEN = "std::vec::Vec::len(%s)" % THR
    cnt_calls = [s for s in r.call_sites(r"Iterator>::count$|Iterator::count$") if THR in R.site(s) and "Iterator::filter(" in R.site(s)]
    CNT = R.site(cnt_calls[0]) if cnt_calls else "?"

    def below(count, limit):
        return P.rel_edges(r, lambda op, a, b: op == "Lt" and R.r(a) == count and R.r(b) == limit)

    def weak(count, limit):
        return P.rel_edges(r, lambda op, a, b: op == "Le" and R.r(a) == count and R.r(b) == limit)
    for s, e in oks:
        for nm, count, limit in (("global limit is strict", LEN, CFG + ".throttle_clients_global_max"), ("per-peer limit is strict", CNT, CFG + ".throttle_clients_peer_max")):
            ok = P.must_pass(r, s.bb, below(count, limit))
            msg = "Ok is reachable only with count < limit"
            if not ok:
                msg = "a dial-back is accepted without a strict `count < limit` guard" + (" — only `count <= limit` protects it, which admits limit + 1" if P.must_pass(r, s.bb, set(below(count, limit)) | set(weak(count, limit))) else "")
            ctx.ob("throttle", nm, ok, s.loc(), msg)
        ctx.ob("throttle", "one dial-back per peer", P.must_pass(r, s.bb, P.truth_edges(r, lambda y: R.r(y) == "std::collections::HashMap::contains_key(%s, $2)" % ONG, False)), s.loc(), "no ongoing dial-back for the sender")
        ctx.ob("throttle", "the request names its sender", P.must_pass(r, s.bb, P.rel_edges(r, lambda op, a, b: op == "Eq" and {R.r(a), R.r(b)} == {"$2", "$3.peer_id"})), s.loc(), "request.peer_id == sender")
        al = dict(e[4])["0"]
        ctx.ob("throttle", "Ok carries the filtered addresses", al[0] == "local", s.loc(), R.r(e))
        if al[0] != "local":
            continue
        AL = al[1]
        RI = P.Norm(r, ids=True)
        ctx.ob("throttle", "at least one address", P.must_pass(r, s.bb, P.truth_edges(r, lambda y: RI.r(y) == "std::vec::Vec::is_empty(%%%d)" % AL, False)), s.loc(), "!addrs.is_empty()")
        src = R.r(r.init_expr(AL))
        ok = re.match(r"^libp2p_autonat::v1::behaviour::as_server::AsServer::filter_valid_addrs\(\$2, \$3\.addresses, (std::option::Option::ok_or_else\()?std::iter::Iterator::find_map\(std::collections::HashMap::values\(std::collections::HashMap::get\(%s, \$2\)@\+\), closure\[\]\)" % re.escape(CON), src) is not None
        ctx.ob("throttle", "addresses = filter_valid_addrs(sender, request.addresses, an observed address of the sender's connections)", ok, "%s:%d" % (r.file, r.line), src[:200])
        tr = [x for x in r.call_sites(r"Vec::truncate$") if RI.site(x) == "std::vec::Vec::truncate(%%%d, %s.max_peer_addresses)" % (AL, CFG)]
        ok = len(tr) == 1 and lib.count_range(r, [0], [s.bb], lib.bbs(tr)) == (1, 1)
        ctx.ob("throttle", "at most max_peer_addresses are dialled", ok, tr[0].loc() if tr else "", "addrs.truncate(max_peer_addresses) on every path to Ok")
    for s in cnt_calls[:1]:
        cs = P.closures_in(prog, r, r.site_expr(s))
        txt = []
        for x, cb in cs[:1]:
            for _, y in P.ret_exprs(cb):
                c = P.cmpnf(y)
                txt.append("%s(%s)" % (c[0], ", ".join(sorted([P.rr(prog, cb, c[1]), P.rr(prog, cb, c[2])]))) if c else P.Norm(cb).r(y))
        ctx.ob("throttle", "per-peer count matches the sender", txt == ["Eq($2, $2.0)"], s.loc(), str(txt))
    ctx.ob("throttle", "floor:per-peer count", len(cnt_calls) == 1, nontrivial=False, msg=str(len(cnt_calls)))
    dr = [s for s in r.call_sites(r"Vec::drain$") if R.r(r.site_expr(s)[2][0]) == THR]
    ok = len(dr) == 1
    txt = ""
    if ok:
        rng = r.site_expr(dr[0])[2][1]
        ok = rng[0] == "agg" and strip_generics(rng[2]).endswith("RangeTo") and P.call_is(dict(rng[4]).get("end", ("x",)), r"partition_point$")
        if ok:
            pp = dict(rng[4])["end"]
            cs = P.closures_in(prog, r, pp)
            exp = []
            for x, cb in cs[:1]:
                for _, y in P.ret_exprs(cb):
                    c = P.cmpnf(y)
                    # expired <=> time + period < now
                    if c and c[0] == "Lt" and P.call_is(c[1], r"Instant as std::ops::Add>::add$") and P.Norm(cb).r(c[2]) == "web_time::Instant::now()" and P.Norm(cb).r(c[1][2][0]) == "$2.1":
                        per = c[1][2][1]
                        exp.append(per[0] == "field" and per[2] == "throttle_clients_period")
                    else:
                        exp.append(False)
            ok = exp == [True] and THR in R.r(pp[2][0])
            txt = R.r(pp)[:120]
    ctx.ob("throttle", "only expired entries (time + period < now) are forgotten", ok, "%s:%d" % (r.file, r.line), txt)
    # ================================================================= handle_event(self, event = $2)
    h = ctx.body(AN, r"^libp2p_autonat::<v1::behaviour::as_server::AsServer as v1::behaviour::HandleInnerEvent>::handle_event$")
    H = P.Norm(h)
    hrets = h.return_blocks()
    rc = h.call_sites(r"AsServer::resolve_inbound_request$")
    ctx.floor("dial", "resolve_inbound_request call", rc, 1, exact=True)
    RES = H.site(rc[0]) if rc else "?"
    PEER = "$2@Message.peer"
    ctx.ob("dial", "the request is resolved for the peer that sent it", RES == "libp2p_autonat::v1::behaviour::as_server::AsServer::resolve_inbound_request(self, %s, $2@Message.message@Request.request)" % PEER, rc[0].loc() if rc else "", RES)
    oke = P.targets(P.outcome_edges(h, P.is_call_at(rc[0]), True)) if rc else []
    dial = [s for s in h.call_sites(r"dial_opts::.*::build$")]
    ins = [s for s in h.call_sites(r"HashMap::insert$") if H.r(h.site_expr(s)[2][0]) == ONG]
    psh = [s for s in h.call_sites(r"Vec::push$") if H.r(h.site_expr(s)[2][0]) == THR]
    ctx.floor("dial", "DialOpts build", dial, 1, exact=True)
    ctx.floor("dial", "ongoing_inbound.insert", ins, 1, exact=True)
    ctx.floor("dial", "throttled_clients.push", psh, 1, exact=True)
    if oke:
        for nm, sites in (("a dial-back is issued", dial), ("the dial-back is registered as ongoing", ins), ("every accepted request is counted for throttling", psh)):
            got = lib.count_range(h, oke, hrets, lib.bbs(sites))
            ctx.ob("dial", nm, got == (1, 1), sites[0].loc() if sites else "", "on the Ok edge of resolve_inbound_request: %s (expected (1, 1))" % (got,))
    for sites, nm in ((dial, "dial"), (ins, "ongoing_inbound.insert"), (psh, "throttled_clients.push")):
        for s in sites:
            ok = bool(oke) and h.must_pass_nodes([0], [s.bb], oke)
            ctx.ob("dial", "%s only for an accepted request" % nm, ok, s.loc(), "reachable only through the Ok edge of resolve_inbound_request")
    for s in dial:
        e = h.site_expr(s)
        adds = [x for x in mir.walk(e) if P.call_is(x, r"dial_opts::WithPeerId::addresses$")]
        ctx.ob("dial", "dialled addresses are the resolved ones", len(adds) == 1 and H.r(adds[0][2][1]) in (RES + "@+", "clone(%s@+)" % RES), s.loc(), H.r(adds[0][2][1])[-120:] if adds else "")
        ctx.ob("dial", "the dial-back targets the requester", "libp2p_swarm::dial_opts::DialOpts::peer_id(%s)" % PEER in H.r(e), s.loc(), "")
    for s in ins:
        a = h.site_expr(s)[2]
        vals = [H.r(x) for _, x in a[2][4]] if a[2][0] == "agg" else []
        ctx.ob("dial", "ongoing dial-back is keyed by the requester and remembers the resolved addresses", H.r(a[1]) == PEER and ("clone(%s@+)" % RES in vals or RES + "@+" in vals), s.loc(), str(vals)[:200])
    for s in psh:
        a = H.r(h.site_expr(s)[2][1])
        ctx.ob("dial", "the throttle entry names the requester", a == "tuple{0: %s, 1: web_time::Instant::now()}" % PEER, s.loc(), a)
    who = {"dial": set(), "insert": set(), "push": set()}
    for b in prog.bodies(AN):
        if "v1::behaviour::as_server" not in b.npath:
            continue
        BN2 = P.Norm(b)
        for s in b.stmt_sites(lambda st: st["k"] == "assign" and st["r"]["k"] == "agg" and st["r"]["ak"] == "adt" and strip_generics(st["r"]["adt"]) == "libp2p_swarm::ToSwarm" and st["r"]["variant"] == "Dial"):
            who["dial"].add(b.npath)
        for s in b.call_sites(r"HashMap::(insert|entry)$"):
            if ("." + F_ONG) in BN2.r(b.site_expr(s)[2][0]):
                who["insert"].add(b.npath)
        for s in b.call_sites(r"Vec::(push|insert|extend|append)$"):
            if ("." + F_THR) in BN2.r(b.site_expr(s)[2][0]):
                who["push"].add(b.npath)
    ctx.ob("dial", "only handle_event dials, registers and counts", all(v == {h.npath} for v in who.values()), msg=str({k: sorted(v) for k, v in who.items()}))
    rem = set()
    for b in prog.bodies(AN):
        if "v1::behaviour" not in b.npath:
            continue
        BN2 = P.Norm(b)
        for s in b.call_sites(r"Vec::(drain|clear|retain|remove|pop|truncate)$"):
            if ("." + F_THR) in BN2.r(b.site_expr(s)[2][0]):
                rem.add(b.npath)
    ctx.ob("throttle", "throttle entries are forgotten only by the expiry drain", rem == {r.npath}, msg=str(sorted(rem)))
