"""C23 DNS dialing is bounded and never leaks unresolved or foreign addresses — constants (K6), limits (K9), guards (K1), origin (K5), panic inventory (K10)."""
import re

from .. import lib, mir
from .. import lib_sec as S
from ..mir import render, strip_generics

EXPLANATION = ("the dial coroutine (found by role: the async body reached from <Transport as libp2p_core::Transport>::dial that calls resolve): constants 32/16/16; `resolve` is called only on the not-at-limit edge of dns_lookups (unit increments from 0, "
               "incremented on every path to resolve); after an accepted dial attempt the next inner dial is reachable only through the "
               "not-at-limit edge of dial_attempts; the inner transport is dialled only when the address contains no Dns/Dns4/Dns6/Dnsaddr "
               "component (closure table over all Protocol variants); /dnsaddr results are queued only if they end with the original suffix "
               "(addr.iter().skip(i+1)) and at most MAX_TXT_RECORDS per lookup; the dial coroutine, resolve and parse_dnsaddr_txt contain "
               "no panic-capable site on resolver-controlled data beyond the two index-validity expects.")
ASSUMPTIONS = ["hickory resolver internals; Multiaddr::replace/ends_with semantics"]
D = "libp2p_dns"

SELFTEST = [
    {"mutation": "`dns_lookups += 1` deleted / `dial_attempts += 1` deleted", "caught_by": "lookups/floor:dns_lookups increment, attempts/floor:dial_attempts increment (+ the counting rules)"},
    {"neutral": "neutral/sec/10 (do_dial renamed); counters / work list renamed; `MAX_DNS_LOOKUPS == dns_lookups`, `MAX_TXT_RECORDS > n`", "silent": True},
]

def check(ctx):
    prog = ctx.prog
    ml = prog.const(D, r"^libp2p_dns::MAX_DNS_LOOKUPS$").get("v")
    md = prog.const(D, r"^libp2p_dns::MAX_DIAL_ATTEMPTS$").get("v")
    mt = prog.const(D, r"^libp2p_dns::MAX_TXT_RECORDS$").get("v")
    ctx.ob("const", "MAX_DNS_LOOKUPS=32, MAX_DIAL_ATTEMPTS=16, MAX_TXT_RECORDS=16", (ml, md, mt) == (32, 16, 16), msg=str((ml, md, mt)))
    c = dial_coroutine(ctx)
    res = c.call_sites(r"^libp2p_dns::resolve$")
    ctx.floor("lookups", "resolve call", res, 1)
    pop = c.call_sites(r"SmallVec::pop$")
    ctx.floor("lookups", "unresolved.pop (loop head)", pop, 1)
    # variables by role: the counters are the locals compared with the limit constants; the work list is the SmallVec popped at the loop head
    l = counter_of(ctx, c, ml, r"MAX_DNS_LOOKUPS$", "dns_lookups")
    la = counter_of(ctx, c, md, r"MAX_DIAL_ATTEMPTS$", "dial_attempts")
    ln = counter_of(ctx, c, mt, r"MAX_TXT_RECORDS$", "n")
    wl = S.peel(c.site_expr(pop[0])[2][0]) if pop else ("unknown", "")
    if wl[0] == "local":
        S.canon_local(c, wl[1], "unresolved")
    for s in res:
        lib.limit_guard(ctx, "lookups", "lookup only below MAX_DNS_LOOKUPS", s, r"^dns_lookups$", r"^const:libp2p_dns::MAX_DNS_LOOKUPS$", "dns_lookups < MAX_DNS_LOOKUPS (unit increments from 0)", unit_increment=True)
    defs = [render(c.rvalue_expr(d[3])) for d in c.defs[l] if d[0] == "stmt"]
    ctx.ob("lookups", "counter starts at 0 and only ever +1", sorted(defs) == ["0", "AddWithOverflow(dns_lookups, 1).0"], msg=str(defs))
    inc = [mir.Site(c, d[1], d[2]) for d in c.defs[l] if d[0] == "stmt" and "AddWithOverflow" in render(c.rvalue_expr(d[3]))]
    ctx.floor("lookups", "dns_lookups increment", inc, 1)
    if inc and res and pop:
        # within one loop iteration: every path from the loop head to resolve passes the increment; and the guard test lies between head and increment
        ctx.passes("lookups", "every lookup is counted", c, c.succ[pop[0].bb], lib.bbs(res), lib.bbs(inc), "dns_lookups += 1 before resolve()", inc[0].loc())
        good, _ = lib.strict_limit_edges(c, r"^dns_lookups$", r"^const:libp2p_dns::MAX_DNS_LOOKUPS$", True)
        r = c.reachable(c.succ[pop[0].bb], blocked_edges=good, stop_nodes=[pop[0].bb])
        ctx.ob("lookups", "limit is re-tested in every iteration before counting", inc[0].bb not in r, inc[0].loc(), "no path from the loop head to the increment avoids the limit test")
    tm = [s for s in c.call_sites(r"Vec::push$") if "TooManyLookups" in render(c.site_expr(s))]
    for s in tm:
        e = lib.at_limit_edges(c, r"^dns_lookups$", r"^const:libp2p_dns::MAX_DNS_LOOKUPS$")
        ctx.ob("lookups", "TooManyLookups only at the limit", bool(e) and c.must_pass_edges(s.bb, e), s.loc(), "reported when dns_lookups == MAX_DNS_LOOKUPS")
    # ---- dial attempts
    dial = c.call_sites(r"libp2p_core::Transport::dial$|Transport>::dial$")
    ctx.floor("attempts", "inner dial", dial, 1)
    defs = [render(c.rvalue_expr(d[3])) for d in c.defs[la] if d[0] == "stmt"]
    ctx.ob("attempts", "counter starts at 0 and only ever +1", sorted(defs) == ["0", "AddWithOverflow(dial_attempts, 1).0"], msg=str(defs))
    inca = [mir.Site(c, d[1], d[2]) for d in c.defs[la] if d[0] == "stmt" and "AddWithOverflow" in render(c.rvalue_expr(d[3]))]
    ctx.floor("attempts", "dial_attempts increment", inca, 1)          # fail closed: the obligations below quantify over the increment sites
    if inca and dial:
        good, weak = lib.strict_limit_edges(c, r"^dial_attempts$", r"^const:libp2p_dns::MAX_DIAL_ATTEMPTS$", True)
        r = c.reachable(c.succ[inca[0].bb], blocked_edges=good)
        ctx.ob("attempts", "after an accepted attempt the next dial requires attempts < MAX_DIAL_ATTEMPTS", bool(good) and dial[0].bb not in r, inca[0].loc(),
               "every path from `dial_attempts += 1` back to inner.dial passes the not-at-limit edge" if dial[0].bb not in r else
               "a path reaches the next inner.dial without the limit test" + (" (only a non-strict `>` guard exists)" if weak else ""))
        ok_edges = S.call_outcome_edges(c, dial[0], close=False)[0]
        ctx.ob("attempts", "floor:accepted-attempt edge", len(ok_edges) >= 1, nontrivial=False, msg=str(sorted(ok_edges)))
        for _, t in ok_edges:
            # the increment happens on every accepted attempt before the future is awaited
            yields = [bi for bi in c.live if c.blocks[bi]["term"] and c.blocks[bi]["term"]["k"] == "yield"]
            rr = c.reachable([t], blocked_nodes=lib.bbs(inca))
            fut_poll = [s.bb for s in c.call_sites(r"Future>::poll$|Future::poll$") if s.bb in c.reachable([t])]
            ctx.ob("attempts", "every accepted attempt is counted before it is awaited", not (set(fut_poll[:1]) & rr), inca[0].loc(), "dial_attempts += 1 on the Ok(fut) edge before polling it")
    # ---- no DNS component reaches the inner transport
    def popped(e):
        """e is the address popped from the work list at the loop head"""
        e = S.peel(S.norm(e))
        return e[0] == "call" and e[1] == "ok" and e[2][0][0] == "call" and re.search(r"SmallVec::pop$", strip_generics(e[2][0][1])) is not None

    def is_search(v):
        return (v[0] == "call" and re.search(r"Iterator::find$|Iterator>::find$|Iterator::position$", strip_generics(v[1])) is not None
                and S.has(v[2][0], lambda x: x[0] == "call" and re.search(r"Multiaddr::iter$", strip_generics(x[1])) is not None and popped(x[2][0])))
    finds = [bi for bi in c.live if c.switch_info(bi) and c.switch_info(bi)[0][0] == "discr" and any(is_search(v) for v in S.tested_values(c.switch_info(bi)[0])[0])]
    ctx.floor("no-dns", "DNS component search", finds, 1)
    _, resolved = S.outcome_edges(c, is_search)
    for s in dial:
        S.guarded(ctx, "no-dns", "inner dial only for fully resolved addresses", s, resolved, "no Dns* component found")
        a = c.site_expr(s)[2]
        ctx.ob("no-dns", "the searched address is the dialled address", len(a) >= 2 and popped(S.expand(c, a[1])), s.loc(), S.nrender(c.site_expr(s))[:260])
    for bi in finds:
        cl = lib.closure_of(prog, c, c.switch_info(bi)[0])
        vs = lib.matches_variants(cl) if cl else None
        ctx.ob("no-dns", "search matches exactly {Dns, Dns4, Dns6, Dnsaddr}", vs == {"Dns", "Dns4", "Dns6", "Dnsaddr"}, cl and "%s:%d" % (cl.file, cl.line) or "", str(vs))
        ctx.ob("no-dns", "search runs over the popped address", any(is_search(v) for v in S.tested_values(c.switch_info(bi)[0])[0]), msg=S.nrender(c.switch_info(bi)[0])[:200])
    # ---- dnsaddr suffix + fan-out
    pushes = [s for s in c.call_sites(r"SmallVec::push$") if wl[0] == "local" and S.is_local(S.peel(c.site_expr(s)[2][0]), wl[1])]
    chain = [s for s in pushes if S.has_call(c.site_expr(s), r"Iterator::chain$")]
    ctx.floor("dnsaddr", "push of a /dnsaddr result", chain, 1)
    suffix_ok, _ = S.truth_edges(c, lambda x: x[0] == "call" and re.search(r"Multiaddr::ends_with$", strip_generics(x[1])) is not None)
    for s in chain:
        S.guarded(ctx, "dnsaddr", "queued only if it ends with the original suffix", s, suffix_ok, "a.ends_with(&suffix)")
        lib.limit_guard(ctx, "dnsaddr", "at most MAX_TXT_RECORDS per lookup", s, r"^n$", r"^const:libp2p_dns::MAX_TXT_RECORDS$", "n < MAX_TXT_RECORDS")
    def _unnot(x):
        while x[0] == "un" and x[1] == "Not":
            x = x[2]
        return x
    ew = [bi for bi in sorted(c.live) if c.switch_info(bi) and _unnot(c.switch_info(bi)[0])[0] == "call" and re.search(r"Multiaddr::ends_with$", strip_generics(_unnot(c.switch_info(bi)[0])[1]))]
    ctx.floor("dnsaddr", "ends_with test", ew, 1)
    for bi in ew:
        cond = c.switch_info(bi)[0]
        while cond[0] == "un":
            cond = cond[2]
        suf = S.norm(S.expand(c, cond[2][1]))
        sk = S.calls(suf, r"Iterator::skip$")
        ok = False
        if sk:
            it, nsk = sk[0][2][0], sk[0][2][1]
            plus = nsk[1] if nsk[0] == "field" and nsk[2] == "0" else nsk
            idx = None
            if plus[0] == "bin" and plus[1] in ("AddWithOverflow", "Add"):
                idx = plus[2] if S.cval(plus[3]) == 1 else (plus[3] if S.cval(plus[2]) == 1 else None)
            ok = (idx is not None and idx[0] == "field" and idx[2] == "0" and idx[1][0] == "call" and idx[1][1] == "ok" and is_search(idx[1][2][0])
                  and it[0] == "call" and re.search(r"Multiaddr::iter$", strip_generics(it[1])) is not None and popped(it[2][0]))
        ctx.ob("dnsaddr", "suffix = components after the resolved one (skip(i + 1))", ok, "%s:%d" % (c.file, c.blocks[bi]["term"].get("l", 0)), render(suf)[:300])
        a0 = S.norm(cond[2][0])
        ctx.ob("dnsaddr", "tested address is the TXT result", S.has(a0, lambda x: x[0] == "call" and x[1] == "ok" and x[2][0][0] == "call" and re.search(r"Iterator>?::next$", strip_generics(x[2][0][1])) is not None), msg=render(a0)[:120])
    defs = [render(c.rvalue_expr(d[3])) for d in c.defs[ln] if d[0] == "stmt"]
    ctx.ob("dnsaddr", "per-lookup counter starts at 0 and only ever +1", sorted(defs) == ["0", "AddWithOverflow(n, 1).0"], msg=str(defs))
    # replaced component index originates from the search
    reps = c.call_sites(r"Multiaddr::replace$")
    for s in reps:
        a = [S.norm(x) for x in c.site_expr(s)[2]]
        ok = (len(a) >= 2 and popped(a[0]) and a[1][0] == "field" and a[1][2] == "0" and a[1][1][0] == "call" and a[1][1][1] == "ok" and is_search(a[1][1][2][0]))
        ctx.ob("dnsaddr", "resolved IP replaces the component that was looked up", ok, s.loc(), render(S.norm(c.site_expr(s)))[:200])
    # ---- panic inventory
    entries = [c, ctx.body(D, r"^libp2p_dns::resolve$"), ctx.body(D, r"^libp2p_dns::parse_dnsaddr_txt$")]
    inv, seen = lib.panic_inventory(prog, D, entries, depth=1)
    unw = [(b, k, det, s) for b, k, det, s in inv if k == "unwrap"]
    for b, k, det, s in unw:
        r = render(b.site_expr(s))
        # allowed: expect() on Multiaddr::replace(addr, i, ..) where i is the index found by enumerate().find() over that address
        e0 = b.site_expr(s)[2][0] if b is c and b.site_expr(s)[2] else ("unknown", "")
        ra = [S.norm(x) for x in e0[2]] if e0[0] == "call" and re.search(r"Multiaddr::replace$", strip_generics(e0[1])) else []
        ok = (len(ra) >= 2 and popped(ra[0]) and ra[1][0] == "field" and ra[1][2] == "0" and ra[1][1][0] == "call" and ra[1][1][1] == "ok" and is_search(ra[1][1][2][0]))
        ctx.ob("nopanic", "expect/unwrap only on locally established facts", ok, s.loc(), "%s in %s: %s" % (det, b.short[-50:], r[-120:]))
    rest = [(b, k, det, s) for b, k, det, s in inv if k != "unwrap"]
    lib.check_inventory(ctx, "nopanic", "dial path", rest, {}, seen)
    ctx.ob("nopanic", "floor:index-validity expects", len([1 for b, k, det, s in unw if "Multiaddr::replace(" in render(b.site_expr(s))]) == 2, nontrivial=False, msg="%d expect sites" % len(unw))


def dial_coroutine(ctx):
    """The async body that performs the resolving dial, located by role: the coroutine of libp2p-dns that calls `resolve` and
    whose enclosing method is called from `<Transport as libp2p_core::Transport>::dial` (whatever that private method is named)."""
    prog = ctx.prog
    cands = [b for b in prog.bodies(D) if b.kind == "coroutine" and b.call_sites(r"^libp2p_dns::resolve$")]
    if len(cands) != 1:
        raise mir.RuleError("dial coroutine of libp2p_dns: expected 1 coroutine calling resolve, found %d %s" % (len(cands), [b.npath for b in cands][:4]))
    c = cands[0]
    ctx.use(c)
    entry = ctx.body(D, r"<Transport as libp2p_core::Transport>::dial$")
    parent = mir.strip_generics(c.parent or "")
    called = {mir.strip_generics(entry.call_name(s.term)) for s in entry.call_sites()}
    ctx.ob("anchor", "the resolving dial is what Transport::dial returns", parent in called, "%s:%d" % (c.file, c.line), "Transport::dial calls %s" % parent.split("::")[-1], nontrivial=False)
    return c


def counter_of(ctx, c, value, const_pat, canon):
    """The user variable that the code compares with the limit constant (read from the comparison's raw operands, so it is
    found even if it is never modified): returns its index and renders it under the canonical name."""
    hits = set()
    for bi in c.live:
        t = c.blocks[bi]["term"]
        if not t or t["k"] != "switch" or t["o"].get("k") not in ("copy", "move") or "pr" in t["o"]["p"]:
            continue
        ds = c.defs.get(t["o"]["p"]["l"], [])
        if len(ds) != 1 or ds[0][0] != "stmt":
            continue
        r = ds[0][3]
        if r["k"] == "un" and r["op"] == "Not" and r["a"].get("k") in ("copy", "move") and "pr" not in r["a"]["p"]:
            ds = c.defs.get(r["a"]["p"]["l"], [])
            if len(ds) != 1 or ds[0][0] != "stmt":
                continue
            r = ds[0][3]
        if r["k"] != "bin" or r["op"] not in ("Eq", "Ne", "Lt", "Le", "Gt", "Ge"):
            continue
        def root(o):
            """the user variable an operand copies (through unnamed single-definition temporaries)"""
            for _ in range(6):
                if o.get("k") not in ("copy", "move") or "pr" in o["p"]:
                    return None
                l0 = o["p"]["l"]
                if l0 in c.names and l0 > c.argc:
                    return l0
                d0 = c.defs.get(l0, [])
                if len(d0) != 1 or d0[0][0] != "stmt" or d0[0][3]["k"] != "use":
                    return None
                o = d0[0][3]["o"]
            return None
        for x, y in ((r["a"], r["b"]), (r["b"], r["a"])):
            if root(x) is not None and S.is_const(c.operand_expr(y), value, const_pat):
                hits.add(root(x))
    if len(hits) != 1:
        raise mir.RuleError("counter compared with %s: %d candidates" % (const_pat, len(hits)))
    l = next(iter(hits))
    S.canon_local(c, l, canon)
    return l
