"""C23 DNS dialing is bounded and never leaks unresolved or foreign addresses — constants (K6), limits (K9), guards (K1), origin (K5), panic inventory (K10)."""
import re

from .. import lib, mir
from ..mir import render

EXPLANATION = ("Transport::do_dial: constants 32/16/16; `resolve` is called only on the not-at-limit edge of dns_lookups (unit increments from 0, "
               "incremented on every path to resolve); after an accepted dial attempt the next inner dial is reachable only through the "
               "not-at-limit edge of dial_attempts; the inner transport is dialled only when the address contains no Dns/Dns4/Dns6/Dnsaddr "
               "component (closure table over all Protocol variants); /dnsaddr results are queued only if they end with the original suffix "
               "(addr.iter().skip(i+1)) and at most MAX_TXT_RECORDS per lookup; the dial coroutine, resolve and parse_dnsaddr_txt contain "
               "no panic-capable site on resolver-controlled data beyond the two index-validity expects.")
ASSUMPTIONS = ["hickory resolver internals; Multiaddr::replace/ends_with semantics"]
D = "libp2p_dns"


def check(ctx):
    prog = ctx.prog
    ml = prog.const(D, r"^libp2p_dns::MAX_DNS_LOOKUPS$").get("v")
    md = prog.const(D, r"^libp2p_dns::MAX_DIAL_ATTEMPTS$").get("v")
    mt = prog.const(D, r"^libp2p_dns::MAX_TXT_RECORDS$").get("v")
    ctx.ob("const", "MAX_DNS_LOOKUPS=32, MAX_DIAL_ATTEMPTS=16, MAX_TXT_RECORDS=16", (ml, md, mt) == (32, 16, 16), msg=str((ml, md, mt)))
    c = ctx.body(D, r"Transport::do_dial::\{closure#0\}$", "coroutine")
    res = c.call_sites(r"^libp2p_dns::resolve$")
    ctx.floor("lookups", "resolve call", res, 1)
    pop = c.call_sites(r"SmallVec::pop$")
    ctx.floor("lookups", "unresolved.pop (loop head)", pop, 1)
    for s in res:
        lib.limit_guard(ctx, "lookups", "lookup only below MAX_DNS_LOOKUPS", s, r"^dns_lookups$", r"^const:libp2p_dns::MAX_DNS_LOOKUPS$", "dns_lookups < MAX_DNS_LOOKUPS (unit increments from 0)", unit_increment=True)
    l = lib.local_by_name(c, "dns_lookups")
    defs = [render(c.rvalue_expr(d[3])) for d in c.defs[l] if d[0] == "stmt"]
    ctx.ob("lookups", "counter starts at 0 and only ever +1", sorted(defs) == ["0", "AddWithOverflow(dns_lookups, 1).0"], msg=str(defs))
    inc = [mir.Site(c, d[1], d[2]) for d in c.defs[l] if d[0] == "stmt" and "AddWithOverflow" in render(c.rvalue_expr(d[3]))]
    if inc and res and pop:
        # within one loop iteration: every path from the loop head to resolve passes the increment; and the guard test lies between head and increment
        ctx.passes("lookups", "every lookup is counted", c, c.succ[pop[0].bb], lib.bbs(res), lib.bbs(inc), "dns_lookups += 1 before resolve()", inc[0].loc())
        good, _ = lib.strict_limit_edges(c, r"^dns_lookups$", r"^const:libp2p_dns::MAX_DNS_LOOKUPS$", True)
        r = c.reachable(c.succ[pop[0].bb], blocked_edges=good, stop_nodes=[pop[0].bb])
        ctx.ob("lookups", "limit is re-tested in every iteration before counting", inc[0].bb not in r, inc[0].loc(), "no path from the loop head to the increment avoids the limit test")
    tm = [s for s in c.call_sites(r"Vec::push$") if "TooManyLookups" in render(c.site_expr(s))]
    for s in tm:
        e = lib.at_limit_edges(c, r"^dns_lookups$", r"^const:libp2p_dns::MAX_DNS_LOOKUPS$")
        ctx.ob("lookups", "TooManyLookups only at the limit", bool(e) and c.must_pass_edges(s.bb, e), s.loc(), "reported when dns_lookups == MAX_DNS_LOOKUPS")
    # ---- dial attempts
    dial = c.call_sites(r"libp2p_core::Transport::dial$|Transport>::dial$")
    ctx.floor("attempts", "inner dial", dial, 1)
    la = lib.local_by_name(c, "dial_attempts")
    defs = [render(c.rvalue_expr(d[3])) for d in c.defs[la] if d[0] == "stmt"]
    ctx.ob("attempts", "counter starts at 0 and only ever +1", sorted(defs) == ["0", "AddWithOverflow(dial_attempts, 1).0"], msg=str(defs))
    inca = [mir.Site(c, d[1], d[2]) for d in c.defs[la] if d[0] == "stmt" and "AddWithOverflow" in render(c.rvalue_expr(d[3]))]
    if inca and dial:
        good, weak = lib.strict_limit_edges(c, r"^dial_attempts$", r"^const:libp2p_dns::MAX_DIAL_ATTEMPTS$", True)
        r = c.reachable(c.succ[inca[0].bb], blocked_edges=good)
        ctx.ob("attempts", "after an accepted attempt the next dial requires attempts < MAX_DIAL_ATTEMPTS", bool(good) and dial[0].bb not in r, inca[0].loc(),
               "every path from `dial_attempts += 1` back to inner.dial passes the not-at-limit edge" if dial[0].bb not in r else
               "a path reaches the next inner.dial without the limit test" + (" (only a non-strict `>` guard exists)" if weak else ""))
        ok_edges = lib.switch_edges_on_site(c, dial[0], {"Ok"}, r"^discr\(libp2p_core::Transport::dial\(")
        for _, t in ok_edges:
            # the increment happens on every accepted attempt before the future is awaited
            yields = [bi for bi in c.live if c.blocks[bi]["term"] and c.blocks[bi]["term"]["k"] == "yield"]
            rr = c.reachable([t], blocked_nodes=lib.bbs(inca))
            fut_poll = [s.bb for s in c.call_sites(r"Future>::poll$|Future::poll$") if s.bb in c.reachable([t])]
            ctx.ob("attempts", "every accepted attempt is counted before it is awaited", not (set(fut_poll[:1]) & rr), inca[0].loc(), "dial_attempts += 1 on the Ok(fut) edge before polling it")
    # ---- no DNS component reaches the inner transport
    finds = [bi for bi in c.live if c.switch_info(bi) and render(c.switch_info(bi)[0]).startswith("discr(std::iter::Iterator::find(std::iter::Iterator::enumerate(libp2p_core::Multiaddr::iter(")]
    ctx.floor("no-dns", "DNS component search", finds, 1)
    for s in dial:
        ctx.guarded("no-dns", "inner dial only for fully resolved addresses", s, lambda cc, r, ll: ll == "None" and r.startswith("discr(std::iter::Iterator::find(std::iter::Iterator::enumerate(libp2p_core::Multiaddr::iter("), "no Dns* component found")
        e = render(c.site_expr(s))
        ctx.ob("no-dns", "the searched address is the dialled address", "SmallVec::pop(" in e.split(", ")[1] if ", " in e else False, s.loc(), e[:260])
    for bi in finds:
        cl = lib.closure_of(prog, c, c.switch_info(bi)[0])
        vs = lib.matches_variants(cl) if cl else None
        ctx.ob("no-dns", "search matches exactly {Dns, Dns4, Dns6, Dnsaddr}", vs == {"Dns", "Dns4", "Dns6", "Dnsaddr"}, cl and "%s:%d" % (cl.file, cl.line) or "", str(vs))
        cond = render(c.switch_info(bi)[0])
        ctx.ob("no-dns", "search runs over the popped address", "SmallVec::pop(" in cond, msg=cond[:200])
    # ---- dnsaddr suffix + fan-out
    pushes = [s for s in c.call_sites(r"SmallVec::push$") if render(c.site_expr(s)[2][0]) == "unresolved"]
    chain = [s for s in pushes if "Iterator::chain(" in render(c.site_expr(s))]
    ctx.floor("dnsaddr", "push of a /dnsaddr result", chain, 1)
    for s in chain:
        ctx.guarded("dnsaddr", "queued only if it ends with the original suffix", s, lambda cc, r, ll: ll == "true" and r.startswith("libp2p_core::Multiaddr::ends_with("), "a.ends_with(&suffix)")
        lib.limit_guard(ctx, "dnsaddr", "at most MAX_TXT_RECORDS per lookup", s, r"^n$", r"^const:libp2p_dns::MAX_TXT_RECORDS$", "n < MAX_TXT_RECORDS")
    ew = [bi for bi in c.live if c.switch_info(bi) and render(c.switch_info(bi)[0]).startswith("libp2p_core::Multiaddr::ends_with(")]
    mir.RENDER_MAX[0] = 30
    for bi in ew:
        cond = c.switch_info(bi)[0]
        a1 = render(cond[2][1])
        ctx.ob("dnsaddr", "suffix = components after the resolved one (skip(i + 1))", re.search(r"Iterator::skip\(libp2p_core::Multiaddr::iter\(.*SmallVec::pop\(unresolved\)@Some\.0\), AddWithOverflow\(.*@Some\.0\.0, 1\)\.0\)", a1) is not None,
               "%s:%d" % (c.file, c.blocks[bi]["term"].get("l", 0)), a1[:300])
        a0 = render(cond[2][0])
        ctx.ob("dnsaddr", "tested address is the TXT result", "Iterator>::next(iter)@Some.0" in a0, msg=a0[:120])
    mir.RENDER_MAX[0] = 14
    ln = lib.local_by_name(c, "n")
    defs = [render(c.rvalue_expr(d[3])) for d in c.defs[ln] if d[0] == "stmt"]
    ctx.ob("dnsaddr", "per-lookup counter starts at 0 and only ever +1", sorted(defs) == ["0", "AddWithOverflow(n, 1).0"], msg=str(defs))
    # replaced component index originates from the search
    reps = c.call_sites(r"Multiaddr::replace$")
    for s in reps:
        e = render(c.site_expr(s))
        ctx.ob("dnsaddr", "resolved IP replaces the component that was looked up", "SmallVec::pop(" in e and "@Some.0.0, closure:" in e, s.loc(), e[:200])
    # ---- panic inventory
    entries = [c, ctx.body(D, r"^libp2p_dns::resolve$"), ctx.body(D, r"^libp2p_dns::parse_dnsaddr_txt$")]
    inv, seen = lib.panic_inventory(prog, D, entries, depth=1)
    unw = [(b, k, det, s) for b, k, det, s in inv if k == "unwrap"]
    for b, k, det, s in unw:
        r = render(b.site_expr(s))
        # allowed: expect() on Multiaddr::replace(addr, i, ..) where i is the index found by enumerate().find() over that address
        ok = re.search(r"expect\(libp2p_core::Multiaddr::replace\(smallvec::SmallVec::pop\(.*\)@Some\.0, .*@Some\.0\.0, closure:", r) is not None
        ctx.ob("nopanic", "expect/unwrap only on locally established facts", ok, s.loc(), "%s in %s: %s" % (det, b.short[-50:], r[-120:]))
    rest = [(b, k, det, s) for b, k, det, s in inv if k != "unwrap"]
    lib.check_inventory(ctx, "nopanic", "dial path", rest, {}, seen)
    ctx.ob("nopanic", "floor:index-validity expects", len([1 for b, k, det, s in unw if "Multiaddr::replace(" in render(b.site_expr(s))]) == 2, nontrivial=False, msg="%d expect sites" % len(unw))
