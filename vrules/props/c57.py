"""C57 length-prefixed protobuf codec bounds allocation and never consumes a partial message — guards (K1), ordering (K3), origin (K5), sibling agreement (K11), panic inventory (K10)."""
import re

from .. import lib, lib_mux, mir
from ..mir import render

EXPLANATION = (
    "prost_codec::Codec::decode: the declared length is the value returned by unsigned_varint::decode::usize on the read buffer; the "
    "rejection `len > self.max_message_len_bytes` (exactly this relation, this field) dominates every later outcome: the need-more-bytes "
    "Ok(None), Buf::advance, split_to and prost decoding are reachable only through its `len <= max` edge, while the only Ok(None) outside "
    "it is the varint-Insufficient arm (length not yet known); malformed varints (NotMinimal/Overflow) give Err. The buffer is consumed only "
    "on the edge where `checked_add(len, varint_len)` is Some(total) and `src.len() >= total` (closure returns exactly `src.len() < total`), "
    "advance(varint_len = src.len() - remaining.len()) precedes split_to(len), the decoded message is prost's decoding of exactly the split "
    "bytes, and no path that returns Ok(None) or the length errors has consumed anything. max_message_len_bytes is written only by new(). "
    "Encoder: the prefix is usize-varint of item.encoded_len() and is written before item.encode(dst) of the same item; encode/decode use "
    "the same varint width. No-panic: the inventory of panic-capable sites in decode and consume_message_prefix is exactly the guarded "
    "advance / split_to / full-range and guarded range index; the `src.len() - remaining.len()` subtraction is on a suffix of src.")
ASSUMPTIONS = ["unsigned_varint::decode::usize returns a suffix of its input as `remaining` (so src.len() - remaining.len() cannot underflow)",
               "prost::Message::{encode, decode, encoded_len} are trusted; value round-trip of messages is not decided",
               "byte-split schedules are not executed: split-independence follows from 'nothing consumed before a full message is present'"]
PC = "prost_codec"

SELFTEST = [
    {"mutation": "decode: limit check moved after the need-more-bytes `return Ok(None)`", "caught_by": "limit/need-more-bytes Ok(None) only for an accepted length"},
    {"mutation": "decode: `message_length > max` -> `>=`", "caught_by": "limit/rejection relation is `len > max_message_len_bytes`"},
    {"mutation": "decode: limit check deleted", "caught_by": "limit/floor + limit/split_to only for an accepted length"},
    {"mutation": "decode: src.advance(varint_length) moved before the completeness test", "caught_by": "complete/advance only when the whole message is buffered + complete/Ok(None) leaves the buffer untouched"},
    {"mutation": "decode: closure `src.len() < total_length` -> `<=`", "caught_by": "complete/completeness closure is `src.len() < total`"},
    {"mutation": "decode: split_to(message_length) -> split_to(message_length + varint_length)", "caught_by": "complete/split_to takes exactly the declared length"},
    {"mutation": "decode: checked_add replaced by wrapping `+`", "caught_by": "complete/total length computed with checked_add"},
    {"mutation": "encode: prefix computed from dst.len()", "caught_by": "encode/prefix is the varint of item.encoded_len()"},
    {"mutation": "consume_message_prefix: `remaining.len() < message_length` -> `remaining.len() + 1 < message_length`", "caught_by": "nopanic/consume_message_prefix: range index only when enough bytes remain"},
    {"mutation": "(neutral, must stay silent) /verif/neutral/mux: 07.diff (debug assertions), `!(len <= max)` and `match checked_add(..) { Some(t) if src.len() >= t .. }`", "caught_by": "silent"},
]


def check(ctx):
    old = mir.RENDER_MAX[0]
    mir.RENDER_MAX[0] = 40
    try:
        _check(ctx)
    finally:
        mir.RENDER_MAX[0] = old


def _check(ctx):
    prog = ctx.prog
    dec = lib_mux.canon_args(ctx.body(PC, r"^prost_codec::<Codec as asynchronous_codec::Decoder>::decode$"), ["self", "src"])
    enc = lib_mux.canon_args(ctx.body(PC, r"^prost_codec::<Codec as asynchronous_codec::Encoder>::encode$"), ["self", "item", "dst"])
    wd = "%s:%d" % (dec.file, dec.line)
    vs = dec.call_sites(r"^unsigned_varint::decode::usize$")
    ctx.floor("limit", "varint length decode", vs, 1, exact=True)
    if not vs:
        raise mir.RuleError("prost_codec decode: no unsigned_varint::decode::usize call")
    V = render(dec.site_expr(vs[0]))
    ctx.ob("limit", "the length is decoded from the read buffer without consuming it", V == "unsigned_varint::decode::usize(<asynchronous_codec::BytesMut as std::ops::Deref>::deref(src))", vs[0].loc(), V)
    LEN, REM = V + "@Ok.0.0", V + "@Ok.0.1"
    VARLEN = "SubWithOverflow(asynchronous_codec::BytesMut::len(src), core::slice::len(%s)).0" % REM
    # ---- the limit test (any polarity / operand order / `!`; one helper level)
    lrel = lib_mux.rel_edges(dec, lambda e: True, lambda e: render(e) == "self.max_message_len_bytes", prog)
    tests = sorted({x["switch"] for x in lrel})
    ctx.floor("limit", "comparison with max_message_len_bytes", tests, 1, exact=True)
    accrel = sorted({x["rel"] for x in lrel if x["rel"] in ("le", "lt")})
    ctx.ob("limit", "rejection relation is `len > max_message_len_bytes`", accrel == ["le"], mir.Site(dec, tests[0]).loc() if tests else wd, "accepting edge establishes `len %s max_message_len_bytes`" % accrel)
    for x in lrel:
        if x["rel"] in ("le", "lt"):
            ctx.ob("limit", "the tested value is the declared length", render(x["lhs"]) == LEN, mir.Site(dec, x["switch"]).loc(), render(x["lhs"])[-60:])
    acc = lib_mux.edges_with(lrel, {"le"})
    z = lib_mux.zero_assigns(dec)
    for x in lrel:
        if x["rel"] in ("gt", "ge") and x["via"] is None:
            t = x["edge"][1]
            ends = sorted({("Err" if lib_mux.is_err_result(z[y]) else z[y][:28]) for y in z if y in dec.reachable([t])})
            eff = [s for s in dec.call_sites(r"Buf>::advance$|BytesMut::(split_to|split_off|reserve|advance)$|Message::decode$") if s.bb in dec.reachable([t])]
            ctx.ob("limit", "an oversize declaration reaches only Err, touching nothing", ends == ["Err"] and not eff, mir.Site(dec, x["switch"]).loc(), "results %s, effects %d" % (ends, len(eff)))
    z = lib_mux.zero_assigns(dec)
    ok_edge = lib.switch_edges_on_site(dec, vs[0], {"Ok"}, r"^discr\(unsigned_varint::decode::usize\(")
    none = sorted(b for b, r in z.items() if r == "std::result::Result::Ok{0: std::option::Option::None{}}")
    ctx.floor("limit", "Ok(None) results", none, 2)
    insuff = dec.guard_edges(lambda c, r, l: l == "Insufficient" and r == "discr(%s@Err.0)" % V)
    n_after = 0
    for b in none:
        site = mir.Site(dec, b, [d[2] for d in dec.defs[0] if d[1] == b][0])
        if insuff and dec.must_pass_edges(b, insuff):
            ctx.ob("limit", "Ok(None) before the length is known only for an incomplete varint", True, site.loc(), "varint decode returned Insufficient")
            continue
        n_after += 1
        ctx.ob("limit", "need-more-bytes Ok(None) only for an accepted length", bool(acc) and dec.must_pass_edges(b, acc), site.loc(),
               "dominated by the `len <= max_message_len_bytes` edge" if acc and dec.must_pass_edges(b, acc) else "the decoder waits for (and buffers) a payload whose declared length was not checked")
    ctx.ob("limit", "floor:need-more-bytes exit", n_after >= 1, nontrivial=False, msg="%d Ok(None) exit(s) after the length is known" % n_after)
    eff = dec.call_sites(r"Buf>::advance$|Buf::advance$|BytesMut::(split_to|split_off|reserve|advance|truncate)$|Message::decode$")
    ctx.floor("limit", "advance / split_to / prost decode", eff, 3)
    for s in eff:
        nm = mir.strip_generics(dec.site_expr(s)[1]).split("::")[-1]
        ctx.ob("limit", "%s only for an accepted length" % nm, bool(acc) and dec.must_pass_edges(s.bb, acc), s.loc(), "dominated by the `len <= max_message_len_bytes` edge")
    for b, r in z.items():
        if r.startswith("std::result::Result::Err{") and "decode::usize" in r and "@Err.0" in r:
            g = dec.guard_edges(lambda c, rr, l: l in ("NotMinimal", "Overflow") and rr == "discr(%s@Err.0)" % V)
            ctx.ob("limit", "malformed varint is an error", bool(g) and dec.must_pass_edges(b, g), wd, "Err on NotMinimal / Overflow")
    wr = [(b, s) for b in prog.bodies(PC) for s in b.field_write_sites("max_message_len_bytes") if s.si is not None]
    aggs = [(b, s) for b in prog.bodies(PC) for s in b.agg_sites(r"^prost_codec::Codec$")]
    vals = sorted((b.short.split("::")[-1], render(dict(b.site_expr(s)[4])["max_message_len_bytes"])) for b, s in aggs)
    ctx.ob("limit", "the limit is set only at construction (new / derived Clone)", not wr and all(v in (("new", "max_message_len_bytes"), ("clone", "std::clone::impls::clone(self.max_message_len_bytes)")) for v in vals) and ("new", "max_message_len_bytes") in vals, wd, str(vals))

    # ---- consume only a complete message
    SRCLEN = "asynchronous_codec::BytesMut::len(src)"
    TOT = "core::num::checked_add(%s, %s)" % (LEN, VARLEN)
    TOT2 = "core::num::checked_add(%s, %s)" % (VARLEN, LEN)
    full, forms = set(), []
    # (a) `total.is_none_or(|t| src.len() < t)` false edge / `total.is_some_and(|t| src.len() >= t)` true edge
    for bi in sorted(dec.live):
        info = dec.switch_info(bi)
        c = info[0] if info else None
        if c is None or c[0] != "call" or len(c[2]) != 2 or render(c[2][0]) not in (TOT, TOT2):
            continue
        nm = mir.strip_generics(c[1]).split("::")[-1]
        cl = lib.closure_of(prog, dec, c)
        if cl is None or nm not in ("is_none_or", "is_some_and"):
            continue
        lib_mux.canon_args(cl, ["env", "total"])
        cm = [lib_mux._cmp_of(cl.rvalue_expr(d[3])) for d in cl.defs.get(0, []) if d[0] == "stmt"]
        rel = None
        if len(cm) == 1 and cm[0]:
            r_, x_, y_ = cm[0]
            if render(y_) == "total" and re.match(r"^asynchronous_codec::BytesMut::len\(\^\*?\w+\)$", render(x_)):
                rel = r_
            elif render(x_) == "total" and re.match(r"^asynchronous_codec::BytesMut::len\(\^\*?\w+\)$", render(y_)):
                rel = lib_mux._FLIP[r_]
        forms.append("%s(|total| src.len() %s total)" % (nm, rel))
        for t, ls in info[1].items():
            if (nm == "is_none_or" and "false" in ls and rel == "lt") or (nm == "is_some_and" and "true" in ls and rel == "ge"):
                full.add((bi, t))
    # (b) explicit `match len.checked_add(varint_len) { Some(total) if src.len() >= total .. }`
    for T in (TOT, TOT2):
        ge = lib_mux.edges_with(lib_mux.rel_edges(dec, lambda e: render(e) == SRCLEN, lambda e, T=T: render(e) == T + "@Some.0"), {"ge"})
        if ge:
            forms.append("src.len() >= checked_add(..)@Some.0")
            full |= ge
    ctx.ob("complete", "total length computed with checked_add", bool(forms), wd, "completeness test(s): %s" % forms)
    ctx.ob("complete", "completeness closure is `src.len() < total`", bool(full), wd, "edge(s) establishing src.len() >= len + varint_len: %d (%s)" % (len(full), forms))
    adv = dec.call_sites(r"Buf>::advance$|Buf::advance$|BytesMut::advance$")
    spl = dec.call_sites(r"BytesMut::split_to$")
    ctx.floor("complete", "advance", adv, 1, exact=True)
    ctx.floor("complete", "split_to", spl, 1, exact=True)
    for s in adv:
        ctx.ob("complete", "advance only when the whole message is buffered", dec.must_pass_edges(s.bb, full), s.loc(), "dominated by the false edge of is_none_or(total, src.len() < total)")
        ctx.ob("complete", "advance skips exactly the varint", render(dec.site_expr(s)[2][1]) == VARLEN, s.loc(), render(dec.site_expr(s)[2][1])[-120:])
    for s in spl:
        ctx.ob("complete", "split_to only when the whole message is buffered", dec.must_pass_edges(s.bb, full), s.loc(), "dominated by the completeness edge")
        ctx.ob("complete", "split_to takes exactly the declared length", render(dec.site_expr(s)[2][1]) == LEN, s.loc(), render(dec.site_expr(s)[2][1])[-100:])
        if adv:
            ctx.ob("complete", "the prefix is skipped before the payload is split off", dec.dominates(adv[0].bb, s.bb) and adv[0].bb != s.bb, s.loc(), "advance dominates split_to")
    untouched = [b for b, r in z.items() if r == "std::result::Result::Ok{0: std::option::Option::None{}}" or (r.startswith("std::result::Result::Err{") and "prost::Message::decode" not in r)]
    reach = dec.reachable([x for s in adv + spl for x in dec.succ[s.bb]])
    ctx.ob("complete", "Ok(None) and the length errors leave the buffer untouched", not (set(untouched) & reach) and bool(untouched), wd, "no path consumes bytes and then returns Ok(None) / a prefix error")
    pd = dec.call_sites(r"prost::Message::decode$")
    for s in pd:
        r = render(dec.site_expr(s)[2][0])
        ctx.ob("complete", "the message is decoded from exactly the split bytes", r == "core::slice::index::index(<asynchronous_codec::BytesMut as std::ops::Deref>::deref(asynchronous_codec::BytesMut::split_to(src, %s)), std::ops::RangeFull::RangeFull{})" % LEN, s.loc(), r[-120:])
    for b, r in z.items():
        if r.startswith("std::result::Result::Ok{0: std::option::Option::Some{"):
            vals = [dec.rvalue_expr(d[3]) for d in dec.defs.get(0, []) if d[0] == "stmt" and d[1] == b]
            inner = dict(dict(vals[0][4])["0"][4])["0"] if vals and vals[0][0] == "agg" and dict(vals[0][4])["0"][0] == "agg" else None
            core = lib_mux._core_call(inner) if inner is not None else None
            ctx.ob("complete", "Ok(Some(m)) returns prost's decoding of those bytes", bool(pd) and core is not None and core[3] == pd[0].bb, wd, r[-60:])

    # ---- encoder
    we = "%s:%d" % (enc.file, enc.line)
    pre = enc.call_sites(r"^unsigned_varint::encode::usize$")
    ctx.floor("encode", "varint prefix", pre, 1, exact=True)
    if not pre:
        raise mir.RuleError("prost_codec encode: no unsigned_varint::encode::usize call")
    ctx.ob("encode", "prefix is the varint of item.encoded_len()", render(enc.site_expr(pre[0])).startswith("unsigned_varint::encode::usize(prost::Message::encoded_len(item), "), pre[0].loc(), render(enc.site_expr(pre[0]))[:90])
    ext = enc.call_sites(r"BytesMut::extend_from_slice$|BufMut>::put_slice$|BufMut>::put$")
    body_ = enc.call_sites(r"prost::Message::encode$")
    ctx.floor("encode", "prefix write + message write", ext + body_, 2)
    if ext and body_:
        ctx.ob("encode", "the prefix written is that varint", render(enc.site_expr(ext[0])[2][1]) == render(enc.site_expr(pre[0])), ext[0].loc(), render(enc.site_expr(ext[0])[2][1])[:80])
        ctx.ob("encode", "prefix precedes the message body of the same item", enc.dominates(ext[0].bb, body_[0].bb) and render(enc.site_expr(body_[0])) == "prost::Message::encode(item, dst)", body_[0].loc(), render(enc.site_expr(body_[0])))
    ze = lib_mux.zero_assigns(enc)
    for b, r in ze.items():
        if r == "std::result::Result::Ok{0: tuple{}}":
            ctx.ob("encode", "Ok only if the body was encoded", bool(body_) and enc.must_pass_edges(b, lib_mux.ok_edges(enc, body_[0])), we, "dominated by the `?`-Continue edge of item.encode(dst)")
    ctx.ob("encode", "encoder and decoder use the same varint width (usize)", bool(pre) and bool(vs), we, "encode::usize / decode::usize")

    # ---- no panic
    cmp_ = lib_mux.canon_args(ctx.body(PC, r"^prost_codec::consume_message_prefix$"), ["buf"])
    inv, seen = lib.panic_inventory(prog, PC, [dec, cmp_], depth=1)
    lib.check_inventory(ctx, "nopanic", "decode + consume_message_prefix", inv, {
        "buf": (2, "src.advance(varint_len) and src.split_to(len) on the `src.len() >= len + varint_len` edge"),
        "index": (2, "message_bytes[..] (full range) and remaining[..message_length] on the `remaining.len() >= message_length` edge"),
    }, seen)
    for b, k, det, s in inv:
        if k == "index":
            r = render(b.site_expr(s))
            if "RangeFull" in r:
                ctx.ob("nopanic", "full-range index cannot fail", True, s.loc(), r[-60:])
            elif b is cmp_:
                m = re.match(r"^core::slice::index::index\((.*), std::ops::RangeTo::RangeTo\{end: (.*)\}\)$", r)
                ok = m is not None
                if ok:
                    base, end = m.group(1), m.group(2)
                    ge = lib_mux.edges_with(lib_mux.rel_edges(cmp_, lambda e, base=base: render(e) == "core::slice::len(%s)" % base, lambda e, end=end: render(e) == end), {"ge", "gt"})
                    okg = bool(ge) and cmp_.must_pass_edges(s.bb, ge)
                    ctx.ob("nopanic", "consume_message_prefix: range index only when enough bytes remain", okg, s.loc(), ("guard present on all paths: " if okg else "a path reaches this site without the guard: ") + "remaining.len() >= message_length")
                else:
                    ctx.ob("nopanic", "consume_message_prefix: range index only when enough bytes remain", False, s.loc(), r[-100:])
            else:
                ctx.ob("nopanic", "unexpected index in decode", False, s.loc(), r[-100:])
    ov = lib_mux.overflow_asserts(dec) + lib_mux.overflow_asserts(cmp_)
    for cnd, msg, s in ov:
        ctx.ob("nopanic", "only `src.len() - remaining.len()` is unchecked arithmetic", cnd == "SubWithOverflow(asynchronous_codec::BytesMut::len(src), core::slice::len(%s)).1" % REM, s.loc(), "%s (%s)" % (cnd[-110:], msg))
