"""C06 a behaviour's connection denial is final — path counting from the Err edge of the four decision points (K2), Drop impl (K12)."""
import re

from .. import lib, mir
from ..mir import render

EXPLANATION = ("At each of the four decision points (handle_pending_outbound_connection in Swarm::dial, handle_pending_inbound_connection in "
               "handle_transport_event, handle_established_{outbound,inbound}_connection in handle_pool_event) the Err edge of the call is "
               "located in the MIR and all paths from it to return are counted: zero add_outgoing/add_incoming/spawn_connection and "
               "established events, exactly one behaviour failure event (and one error SwarmEvent at the three asynchronous points) "
               "carrying the same connection id; NewConnection has a Drop impl that hands the muxer back to the pool for closing.")
ASSUMPTIONS = ["behaviours that mutate their own state before a later sibling denies (composition semantics is C58)",
               "the drop listener in Pool::poll closes the returned muxer (checked structurally only: spawn of close())"]
SW = "libp2p_swarm"
FS = r"behaviour::FromSwarm$"
SE = r"^libp2p_swarm::SwarmEvent$"


def beh(b, variant):
    return lib.calls_with_variant(b, r"NetworkBehaviour::on_swarm_event$", FS, variant)


def swe(b, variant):
    out = []
    for s in b.call_sites(r"VecDeque::push_back$"):
        e = b.site_expr(s)
        if "pending_swarm_events" in render(e[2][0]) and variant in lib.agg_variants(e[2][1], SE):
            out.append(s)
    return out


def point(ctx, body, name, callee, admit_pats, fail_variant, swarm_err, id_pat):
    calls = body.call_sites(callee)
    ctx.floor("decision-point", name + " call", calls, 1)
    if not calls:
        return None
    c = calls[0]
    err_edges = lib.switch_edges_on_site(body, c, {"Err"}, r"^discr\(libp2p_swarm::behaviour::NetworkBehaviour::")
    ok_edges = lib.switch_edges_on_site(body, c, {"Ok"}, r"^discr\(libp2p_swarm::behaviour::NetworkBehaviour::")
    ctx.ob("decision-point", "floor:%s Err edge" % name, len(err_edges) == 1 and len(ok_edges) == 1, c.loc(),
           "Err/Ok edges of %s: %s / %s" % (name, sorted(err_edges), sorted(ok_edges)), nontrivial=False)
    if not err_edges:
        return c
    et = [t for _, t in err_edges]
    rets = body.return_blocks()
    admits = []
    for pat in admit_pats:
        admits += lib.bbs(body.call_sites(pat))
    admits += lib.bbs(beh(body, "ConnectionEstablished")) + lib.bbs(swe(body, "ConnectionEstablished"))
    ctx.ob("denied", "floor:%s admit markers" % name, len(admits) >= 1, msg="%d admit markers" % len(admits), nontrivial=False)
    got = lib.count_range(body, et, rets, admits)
    ctx.ob("denied", name + ": no admission after Err", got == (0, 0), c.loc(),
           "add_*/spawn_connection/established events on paths from the Err edge: %s (expected (0, 0))" % (got,))
    fails = beh(body, fail_variant)
    got = lib.count_range(body, et, rets, lib.bbs(fails))
    ctx.ob("denied", name + ": one behaviour failure event", got == (1, 1), c.loc(),
           "FromSwarm::%s on paths from the Err edge: %s (expected (1, 1))" % (fail_variant, got))
    if swarm_err:
        se = swe(body, swarm_err)
        got = lib.count_range(body, et, rets, lib.bbs(se))
        ctx.ob("denied", name + ": one error SwarmEvent", got == (1, 1), c.loc(),
               "SwarmEvent::%s on paths from the Err edge: %s (expected (1, 1))" % (swarm_err, got))
    # id consistency: failure event on the Err path carries the id given to the behaviour
    idarg = render(body.site_expr(c)[2][1])
    reach = body.reachable(et)
    for s in fails:
        if s.bb not in reach:
            continue
        e = body.site_expr(s)
        ids = [render(dict(x[4]).get("connection_id")) for x in mir.walk(e) if x[0] == "agg" and x[2].endswith(fail_variant) and dict(x[4]).get("connection_id")]
        ctx.ob("denied", name + ": failure event carries the decided id", ids == [idarg], s.loc(),
               "connection_id in FromSwarm::%s = %s, id passed to %s = %s" % (fail_variant, [i[:60] for i in ids], name, idarg[:60]))
    return c


def admit_needs_ok(ctx, body, name, decision_calls, admit_pat):
    """Every admission site is reached only through the Ok edge of one of the decision calls."""
    bbs_ = {c.bb for c in decision_calls if c is not None}
    for s in body.call_sites(admit_pat):
        ctx.guarded("admit-needs-ok", "%s: %s" % (name, admit_pat.split("::")[-1].rstrip("$")), s,
                    lambda cc, r, l: l == "Ok" and r.startswith("discr(libp2p_swarm::behaviour::NetworkBehaviour::") and
                    any(x[0] == "call" and x[3] in bbs_ for x in mir.walk(cc)),
                    "behaviour decision == Ok")


def check(ctx):
    prog = ctx.prog
    d = ctx.body(SW, r"^libp2p_swarm::Swarm::dial$")
    c1 = point(ctx, d, "handle_pending_outbound_connection", r"NetworkBehaviour::handle_pending_outbound_connection$",
          [r"pool::Pool::add_outgoing$"], "DialFailure", None, None)
    t = ctx.body(SW, r"^libp2p_swarm::Swarm::handle_transport_event$")
    admit_needs_ok(ctx, d, "dial", [c1], r"pool::Pool::add_outgoing$")
    c2 = point(ctx, t, "handle_pending_inbound_connection", r"NetworkBehaviour::handle_pending_inbound_connection$",
          [r"pool::Pool::add_incoming$"], "ListenFailure", "IncomingConnectionError", None)
    h = ctx.body(SW, r"^libp2p_swarm::Swarm::handle_pool_event$")
    admit_needs_ok(ctx, t, "handle_transport_event", [c2], r"pool::Pool::add_incoming$")
    c3 = point(ctx, h, "handle_established_outbound_connection", r"NetworkBehaviour::handle_established_outbound_connection$",
          [r"pool::Pool::spawn_connection$"], "DialFailure", "OutgoingConnectionError", None)
    c4 = point(ctx, h, "handle_established_inbound_connection", r"NetworkBehaviour::handle_established_inbound_connection$",
          [r"pool::Pool::spawn_connection$"], "ListenFailure", "IncomingConnectionError", None)
    admit_needs_ok(ctx, h, "handle_pool_event", [c3, c4], r"pool::Pool::spawn_connection$")
    # spawn_connection is the only consumer of NewConnection (extract) and it is called only from handle_pool_event
    ext = prog.callers(SW, r"pool::NewConnection::extract$")
    ctx.ob("who", "NewConnection::extract callers", {s.body.npath for s in ext} == {"libp2p_swarm::connection::pool::Pool::spawn_connection"},
           msg="callers: %s" % sorted({s.body.npath for s in ext}))
    sp = prog.callers(SW, r"pool::Pool::spawn_connection$")
    ctx.ob("who", "spawn_connection callers", {s.body.npath for s in sp} == {"libp2p_swarm::Swarm::handle_pool_event"},
           msg="callers: %s" % sorted({s.body.npath for s in sp}))
    # K12: Drop for NewConnection sends the muxer to the drop listener
    imp = prog.impls(SW, r"ops::Drop$|ops::drop::Drop$", r"pool::NewConnection$")
    ctx.ob("drop", "impl Drop for NewConnection", len(imp) == 1, msg="%d Drop impl(s) for NewConnection" % len(imp))
    dr = ctx.body(SW, r"<connection::pool::NewConnection as std::ops::Drop>::drop$")
    snd = dr.call_sites(r"oneshot::Sender::send$")
    ok = len(snd) == 1 and "drop_sender" in render(dr.site_expr(snd[0])) and "self.connection" in render(dr.site_expr(snd[0]))
    ctx.ob("drop", "drop sends connection to drop_sender", ok, "%s:%d" % (dr.file, dr.line),
           "Drop::drop sends self.connection.take() through self.drop_sender: %s" % ([render(dr.site_expr(s))[:140] for s in snd]))
    if snd:
        ctx.guarded("drop", "send whenever a connection is still held", snd[0],
                    lambda c, r, l: l == "Some" and "Option::take(self.connection)" in r, "self.connection.take() is Some")
        # and conversely every path with Some reaches the send
        some_edges = lib.switch_edges_on(dr, r"Option::take\(self\.connection\)", {"Some"})
        st = [t for _, t in some_edges]
        got = lib.count_range(dr, st, dr.return_blocks(), lib.bbs(snd))
        ctx.ob("drop", "held connection always handed back", got == (1, 1), "%s:%d" % (dr.file, dr.line), "send on the Some edge: %s" % (got,))
    # Pool::poll closes what the drop listeners yield
    p = ctx.body(SW, r"pool::Pool::poll$")
    ok_edges = lib.switch_edges_on(p, r"^discr\(futures::StreamExt::poll_next_unpin\(self\.new_connection_dropped_listeners, cx\)@Ready\.0@Some\.0\)$", {"Ok"})
    spawn = lib.bbs(p.call_sites(r"ExecSwitch::spawn$"))
    ctx.ob("drop", "floor:dropped listener Ok edge", len(ok_edges) == 1, msg=str(sorted(ok_edges)), nontrivial=False)
    if ok_edges:
        (src, tgt), = list(ok_edges)
        # before looping (continue) the close task is spawned
        back = [bi for bi in p.live if any(s == x for x in [0] for s in [])]
        got_blocks = p.reachable([tgt], blocked_nodes=spawn)
        # the loop head is the switch block region start: approximate with the poll_next_unpin call block of the listeners
        heads = lib.bbs([s for s in p.call_sites(r"StreamExt::poll_next_unpin$") if "new_connection_dropped_listeners" in render(p.site_expr(s))])
        ctx.ob("drop", "dropped connection closed before next iteration", not (set(heads) & got_blocks) and not (set(p.return_blocks()) & got_blocks),
               "%s:%d" % (p.file, p.blocks[src]["term"].get("l", 0)), "a close task is spawned for every muxer returned by a dropped NewConnection")
    cl = [b for b in prog.children(p) if b.kind == "coroutine"]
    ok = any(b.call_sites(r"StreamMuxerExt::close$") for b in cl)
    ctx.ob("drop", "spawned task closes the muxer", ok, msg="async block in Pool::poll calls StreamMuxerExt::close")
    # "nor counted": the established counter is advanced only inside spawn_connection (which is reached only on the Ok edge,
    # see admit-needs-ok) and the pending counters only inside add_outgoing/add_incoming
    for helper, allowed in (("inc_established", {"libp2p_swarm::connection::pool::Pool::spawn_connection"}),
                            ("inc_pending", {"libp2p_swarm::connection::pool::Pool::add_outgoing"}),
                            ("inc_pending_incoming", {"libp2p_swarm::connection::pool::Pool::add_incoming"})):
        cs = prog.callers(SW, r"pool::ConnectionCounters::%s$" % helper)
        who = {s.body.npath for s in cs}
        ctx.ob("counted", "%s only where the admitted connection is registered" % helper, bool(who) and who <= allowed,
               cs[0].loc() if cs else "", "callers of ConnectionCounters::%s: %s (allowed %s)" % (helper, sorted(who), sorted(allowed)))


MUTANTS = [
    {"name": "count established before the behaviour decides", "file": "swarm/src/connection/pool.rs",
     "find": "                    let established_in = accepted_at.elapsed();\n",
     "replace": "                    let established_in = accepted_at.elapsed();\n                    self.counters.inc_established(&endpoint);\n",
     "expect": r"^counted/", "why": "a connection denied at the established stage stays counted forever"},
    {"name": "pending inbound denial with a silent early return", "file": "swarm/src/lib.rs",
     "find": "                    Err(cause) => {\n                        let listen_error = ListenError::Denied { cause };\n",
     "replace": "                    Err(cause) if cause.downcast_ref::<std::io::Error>().is_some() => { return; }\n                    Err(cause) => {\n                        let listen_error = ListenError::Denied { cause };\n",
     "expect": r"^denied/", "why": "one denial path reports no ListenFailure / IncomingConnectionError"},
]


# ------------------------------------------------------------------------------------------------------------------------
# behaviour combinators shipped with the swarm crate (Toggle, Either): an inner behaviour's denial must stay a denial
def _combinators(ctx):
    prog = ctx.prog
    HOOK = r"handle_(pending|established)_(in|out)bound_connection$"
    n_calls = 0
    for b in prog.bodies(SW):
        if not re.search(HOOK, b.npath) or b.kind not in ("fn", "method") or b.npath.startswith("libp2p_swarm::Swarm"):
            continue
        inner = b.call_sites(r"NetworkBehaviour::" + HOOK + r"|NetworkBehaviour>::" + HOOK)
        if not inner:
            continue
        ctx.bodies.add(b.npath)
        oks = {d[1] for d in b.defs.get(0, []) if d[0] == "stmt" and render(b.rvalue_expr(d[3])).startswith("std::result::Result::Ok{")}
        for c in inner:
            n_calls += 1
            hook = mir.strip_generics(b.call_name(c.term)).split("::")[-1]
            who = b.npath.split("::", 1)[-1]
            # edges on which the inner hook's result is known to be Err: `?` (Break), match / if let (Err)
            err = set()
            for bi in b.live:
                info = b.switch_info(bi)
                if not info or info[0][0] != "discr":
                    continue
                if not any(x[0] == "call" and x[3] == c.bb for x in mir.walk(info[0])):
                    continue
                for tgt, ls in info[1].items():
                    if ls and ls <= {"Err", "Break"}:
                        err.add((bi, tgt))
            # ... or the inner Result is returned as it is (tail call)
            passthrough = ("pr" not in c.term["d"] and c.term["d"]["l"] == 0) or any(
                d[0] == "stmt" and (lambda e: e[0] == "call" and e[3] == c.bb)(b.rvalue_expr(d[3])) for d in b.defs.get(0, []))
            if passthrough and not err:
                ctx.ob("combinator", "%s: the inner %s result is returned unchanged" % (who, hook), True, c.loc(), "tail call: the inner Result is the result")
                continue
            ctx.ob("combinator", "%s: the inner %s result is branched on (a denial is not swallowed)" % (who, hook), bool(err), c.loc(),
                   "Err/Break edge(s) of the inner call: %s" % sorted(err) if err else
                   "the inner behaviour's Result is never tested: a denial is converted into something else (e.g. `.ok()`)")
            for _, t in err:
                r = b.reachable_bool([t])
                ctx.ob("combinator", "%s: an inner %s denial cannot end in Ok" % (who, hook), not (oks & r), c.loc(),
                       "no Ok(..) result is reachable from the Err edge of the inner call" if not (oks & r) else "an Ok(..) return is reachable after the inner behaviour denied")
    ctx.ob("combinator", "floor:inner hook calls in behaviour combinators", n_calls >= 8, nontrivial=False, msg="%d inner hook calls (Toggle 4 + Either 2x4)" % n_calls)


_check_core = check


def check(ctx):
    _check_core(ctx)
    _combinators(ctx)
