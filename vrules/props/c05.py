"""C05 established identity matches expectation and is never local — finite-partition abstract evaluation (K7) + ordering (K3)."""
import re

from .. import lib, mir
from .. import lib_sw as S
from ..mir import render

EXPLANATION = ("The check_peer_id closure in Pool::poll is evaluated abstractly over all cells of (expected peer present?, expected != "
               "obtained?, local == obtained?, endpoint kind) and must equal the reference table (WrongPeerId / LocalPeerId outbound / "
               "LocalPeerId inbound / Ok); in Pool::poll the Err edge of the closure closes the muxer and returns without creating a "
               "NewConnection or a ConnectionEstablished event; the closure compares the obtained id with the *stored* expected id and "
               "local id; the stored expected id is the peer the dial was made for (add_outgoing stores its `peer` argument, which "
               "Swarm::dial takes from the DialOpts).  Captured variables are identified by what they are bound to, not by name.")
ASSUMPTIONS = ["PeerId equality is exact", "the obtained peer id is the one authenticated by the security upgrade (C16/C18/C19)"]
SW = "libp2p_swarm"


def _site_bb(body, agg_expr):
    """block of the statement that builds (an aggregate containing) agg_expr"""
    want = render(agg_expr)
    for bi in sorted(body.live):
        for st in body.blocks[bi]["stmts"]:
            if st["k"] == "assign" and st["r"]["k"] == "agg" and want in render(body.rvalue_expr(st["r"])):
                return bi
    return 0


def check(ctx):
    prog = ctx.prog
    F_PEND = S.role(prog, "pool.pending")
    F_PEER = S.role(prog, "pending.peer")
    F_LOCAL = S.role(prog, "pool.local_id")
    p = S.nbody(ctx, r"pool::Pool::poll$")
    chk = None
    for c in prog.children(p):
        if c.kind == "closure" and c.agg_sites(r"connection::pool::PoolEvent$"):
            chk = c
    if chk is None:
        raise mir.RuleError("check_peer_id closure not found")
    S.neutral(chk)
    ctx.use(chk)
    # ---- what the closure captures (roles by binding)
    aggs = [s for s in p.stmt_sites(lambda st: st["k"] == "assign" and st["r"]["k"] == "agg" and st["r"].get("def") == chk.path)]
    ctx.floor("origin", "closure construction", aggs, 1)
    caps = p.site_expr(aggs[0])[2] if aggs else ()

    def removed_entry(e):
        return any(c[2] and render(c[2][0]) == "self." + F_PEND for c in mir.calls_in(e, r"HashMap::remove$"))
    k_exp = [i for i, c in enumerate(caps) if c[0] == "field" and c[2] == F_PEER and removed_entry(c)]
    k_obt = [i for i, c in enumerate(caps) if re.search(r"@ConnectionEstablished\.\w+\.0$", render(c)) and not removed_entry(c)]
    k_loc = [i for i, c in enumerate(caps) if render(c) == "self." + F_LOCAL]
    def candidates(c):
        """the values a captured operand can have: definitions of a local / the matching component of a local tuple"""
        if c[0] == "local":
            return [x for _, x in S.defs_exprs(p, c[1])]
        if c[0] == "field" and c[1][0] == "local":
            out = []
            for _, x in S.defs_exprs(p, c[1][1]):
                if x[0] == "agg" and x[1] == "tuple":
                    out += [v for f, v in x[4] if f == c[2]]
                else:
                    return []
            return out
        return [c]
    cp_vals = {i: candidates(c) for i, c in enumerate(caps)}
    k_ep = [i for i, vs in cp_vals.items() if vs and all(v[0] == "agg" and v[1] == "adt" and mir.strip_generics(v[2]).endswith("libp2p_core::ConnectedPoint") for v in vs)]
    ok_roles = all(len(k) == 1 for k in (k_exp, k_obt, k_loc, k_ep))
    ctx.ob("origin", "expected id = removed PendingConnection.peer_id", len(k_exp) == 1, aggs[0].loc() if aggs else "", "closure captures pending.remove(id).peer_id: %s" % [render(c)[-60:] for c in caps])
    ctx.ob("origin", "obtained id = task event output.0", len(k_obt) == 1, aggs[0].loc() if aggs else "", "closure captures the (peer_id, muxer) output of the pending task")
    ctx.ob("origin", "local id = the pool's own peer id", len(k_loc) == 1, aggs[0].loc() if aggs else "", "closure captures self.%s" % F_LOCAL)
    ctx.ob("origin", "endpoint = the connected point built from the pending entry", len(k_ep) == 1, aggs[0].loc() if aggs else "", "closure captures the local ConnectedPoint")
    if k_exp:
        # the expected id and the id that keys the removal belong to the same task event
        e = caps[k_exp[0]]
        ctx.ob("origin", "expected id belongs to the entry of this connection id", re.search(r"@ConnectionEstablished\.id\)", render(e)) is not None, aggs[0].loc(), render(e)[-160:])
    if k_ep:
        # the endpoint the closure switches on is derived from the removed entry's endpoint, direction preserved
        vs = cp_vals[k_ep[0]]
        kinds = sorted(v[3] for v in vs)
        ok = kinds == ["Dialer", "Listener"]
        for v in vs:
            gs = [ls for (t, ls, _, c) in p.guards_on_all_paths(_site_bb(p, v)) if c[0] == "discr" and c[1][0] == "field" and c[1][2] == S.role(prog, "pending.endpoint") and removed_entry(c)]
            ok = ok and any(ls == frozenset([v[3]]) for ls in gs)
        ctx.ob("origin", "connected point has the direction of the pending entry", ok, aggs[0].loc(), "ConnectedPoint variants built from the removed entry: %s" % kinds)
    res = S.ret_sites(chk)
    ctx.floor("table", "result assignments in check_peer_id", res, 4)
    if ok_roles:
        u = lambda k: r"\^\*?u%d" % k[0]
        exp, obt, loc, ep = u(k_exp), u(k_obt), u(k_loc), u(k_ep)
        atom_map = [(r"^discr\(%s\)$" % exp, "expected"),
                    (r"^(std::cmp::PartialEq|<libp2p_core::PeerId as std::cmp::PartialEq>)::ne\((%s@Some\.0, %s|%s, %s@Some\.0)\)$" % (exp, obt, obt, exp), "expected_ne_obtained"),
                    (r"PartialEq>::eq\((%s, %s|%s, %s)\)$" % (loc, obt, obt, loc), "local_eq_obtained"),
                    (r"^discr\(%s\)$" % ep, "endpoint")]

        def value_of(s):
            e = chk.site_expr(s)
            r = render(e)
            if r.startswith("std::result::Result::Ok{"):
                return "Ok"
            m = re.search(r"PoolEvent::(Pending\w+ConnectionError)\{.*?error: libp2p_swarm::connection::error::\w+::(\w+)\{", r)
            if m:
                return m.group(1) + "/" + m.group(2)
            return "?" + r[:60]
        domain = {"expected": ["Some", "None"], "expected_ne_obtained": ["true", "false"], "local_eq_obtained": ["true", "false"],
                  "endpoint": ["Dialer", "Listener"]}

        def ref(a):
            if a["expected"] == "Some" and a["expected_ne_obtained"] == "true":
                if a["endpoint"] == "Dialer":
                    return "PendingOutboundConnectionError/WrongPeerId"
                return set()  # inbound connections never carry an expected id: panics (unreachable!)
            if a["local_eq_obtained"] == "true":
                return "PendingOutboundConnectionError/LocalPeerId" if a["endpoint"] == "Dialer" else "PendingInboundConnectionError/LocalPeerId"
            return "Ok"
        lib.check_cells(ctx, "table", "check_peer_id", chk, res, value_of, atom_map, domain, ref, "%s:%d" % (chk.file, chk.line))
    # ---- the stored expected id is the peer the dial was made for
    ao = S.nbody(ctx, r"pool::Pool::add_outgoing$")
    i_peer = S.param_of_type(ao, r"^std::option::Option<libp2p_core::PeerId>$")
    pcs = ao.agg_sites(r"pool::PendingConnection$")
    ctx.floor("origin", "PendingConnection built in add_outgoing", pcs, 1)
    for s in pcs:
        v = dict(ao.site_expr(s)[4]).get(F_PEER)
        ctx.ob("origin", "add_outgoing stores the peer the dial is for", v is not None and v[0] == "arg" and v[1] == i_peer, s.loc(),
               "PendingConnection.%s = %s" % (F_PEER, render(v) if v is not None else None))
    outer = prog.callers(SW, r"pool::Pool::add_outgoing$")
    ctx.floor("origin", "callers of add_outgoing", outer, 1)
    for o in outer:
        oe = o.body.site_expr(o)
        a = oe[2][i_peer - 1] if len(oe[2]) >= i_peer else ("unknown", "?")
        ctx.ob("origin", "the peer handed to the pool is the dial's target", S.is_call(a, r"dial_opts::DialOpts::get_peer_id$"), o.loc(), render(a)[:120])
    # inbound connections carry no expected id (the closure's Listener/WrongPeerId cell is unreachable)
    ai = S.nbody(ctx, r"pool::Pool::add_incoming$")
    for s in ai.agg_sites(r"pool::PendingConnection$"):
        v = dict(ai.site_expr(s)[4]).get(F_PEER)
        ctx.ob("origin", "add_incoming stores no expected peer", v is not None and render(v) == "std::option::Option::None{}", s.loc(), render(v) if v is not None else "")
    # ---- Err edge: close + return, no NewConnection / Established
    call = p.call_sites(re.escape(mir.strip_generics(chk.path)) + "$")
    ctx.floor("origin", "check_peer_id call", call, 1)
    if call:
        err_edges = lib.switch_edges_on_site(p, call[0], {"Err"})
        err_t = [t for _, t in err_edges]
        newc = lib.bbs(p.call_sites(r"pool::NewConnection::new$"))
        est = lib.bbs([s for s in p.agg_sites(r"connection::pool::PoolEvent$", "ConnectionEstablished")])
        ctx.floor("err-edge", "NewConnection::new", newc, 1)
        ctx.floor("err-edge", "PoolEvent::ConnectionEstablished", est, 1)
        lib.never_between(ctx, "err-edge", "mismatch never establishes", p, err_t, p.return_blocks(), set(newc) | set(est),
                          "NewConnection::new / PoolEvent::ConnectionEstablished after check_peer_id() failed")
        spawn = lib.bbs(p.call_sites(r"ExecSwitch::spawn$"))
        got = lib.count_range(p, err_t, p.return_blocks(), spawn)
        ctx.ob("err-edge", "mismatching connection is closed", got == (1, 1), call[0].loc(),
               "muxer close task spawned on the Err path: %s (expected (1, 1))" % (got,))
        for b in newc + est:
            ctx.guarded("err-edge", "established requires Ok", mir.Site(p, b),
                        lambda c, r, l: l == "Ok" and any(x[0] == "call" and x[3] == call[0].bb for x in mir.walk(c)),
                        "check_peer_id() == Ok")


# ------------------------------------------------------------------------------------------------------------------------
# the peer a dial is *for*: an explicitly requested PeerId always wins over one derived from an address
def _explicit_peer_wins(ctx):
    prog = ctx.prog
    g = ctx.body(SW, r"dial_opts::DialOpts::get_peer_id$")
    adt = prog.adt(SW, r"^libp2p_swarm::dial_opts::DialOpts$")
    fl = [f["n"] for f in adt["variants"][0]["fields"] if re.search(r"^std::option::Option<libp2p_identity::PeerId>$|Option<.*PeerId>$", f["ty"])]
    ctx.ob("explicit-peer", "floor:DialOpts has one Option<PeerId> field", len(fl) == 1, nontrivial=False, msg=str(fl))
    if len(fl) != 1:
        return
    fld = "." + fl[0]

    def is_field(e):
        return e[0] == "field" and e[2] == fl[0]

    # edges on which the explicit peer is known to be absent
    none_edges = set()
    for bi in g.live:
        info = g.switch_info(bi)
        if not info:
            continue
        c = info[0]
        neg = False
        while c[0] == "un" and c[1] == "Not":
            neg, c = not neg, c[2]
        for tgt, ls in info[1].items():
            if c[0] == "discr" and is_field(c[1]) and ls == {"None"}:
                none_edges.add((bi, tgt))
            if c[0] == "call" and c[2] and is_field(c[2][0]):
                nm = mir.strip_generics(c[1])
                if (nm.endswith("Option::is_none") and ls == {"false" if neg else "true"}) or (nm.endswith("Option::is_some") and ls == {"true" if neg else "false"}):
                    none_edges.add((bi, tgt))
    n = 0
    for d in g.defs.get(0, []):
        site = mir.Site(g, d[1], d[2])
        e = g.site_expr(site)
        r = render(e)
        n += 1
        # acceptable: the value is the explicit peer itself / Some(explicit peer payload) / explicit.or(..) / explicit.or_else(..)
        first = e
        if e[0] == "call" and re.search(r"Option::(or|or_else|xor)$", mir.strip_generics(e[1])) and e[2]:
            first = e[2][0]
        own = any(is_field(x) for x in mir.walk(first)) and not any(x[0] == "call" for x in mir.walk(first))
        guarded = bool(none_edges) and g.must_pass_edges(site.bb, none_edges)
        ctx.ob("explicit-peer", "a peer id not taken from the explicit request is returned only when none was requested", own or guarded, site.loc(),
               "returned value %s is %s" % (r[:110], "the explicitly requested peer (first choice)" if own else
                                            ("behind the `no explicit peer` edge" if guarded else "derived from an address although an explicit peer may be set: the address's /p2p suffix overrides the peer the dial was made for")))
    ctx.ob("explicit-peer", "floor:get_peer_id results", n >= 1, nontrivial=False, msg="%d result sites" % n)


_check_core05 = check


def check(ctx):
    _check_core05(ctx)
    _explicit_peer_wins(ctx)
