"""C05 established identity matches expectation and is never local — finite-partition abstract evaluation (K7) + ordering (K3)."""
import re

from .. import lib, mir
from ..mir import render

EXPLANATION = ("The check_peer_id closure in Pool::poll is evaluated abstractly over all cells of (expected peer present?, expected != "
               "obtained?, local == obtained?, endpoint kind) and must equal the reference table (WrongPeerId / LocalPeerId outbound / "
               "LocalPeerId inbound / Ok); in Pool::poll the Err edge of the closure closes the muxer and returns without creating a "
               "NewConnection or a ConnectionEstablished event; the closure compares the obtained id with the *stored* expected id and local id.")
ASSUMPTIONS = ["PeerId equality is exact", "the obtained peer id is the one authenticated by the security upgrade (C16/C18/C19)"]
SW = "libp2p_swarm"


def check(ctx):
    prog = ctx.prog
    p = ctx.body(SW, r"pool::Pool::poll$")
    chk = None
    for c in prog.children(p):
        if c.kind == "closure" and c.agg_sites(r"connection::pool::PoolEvent$"):
            chk = c
    if chk is None:
        raise mir.RuleError("check_peer_id closure not found")
    ctx.use(chk)
    res = [mir.Site(chk, x[1], x[2]) for x in chk.defs[0]]
    ctx.floor("table", "result assignments in check_peer_id", res, 4)
    atom_map = [(r"^discr\(\^expected_peer_id\)$", "expected"),
                (r"^std::cmp::PartialEq::ne\(\^expected_peer_id@Some\.0, \^obtained_peer_id\)$", "expected_ne_obtained"),
                (r"PartialEq>::eq\(\^\*self\.local_id, \^obtained_peer_id\)$", "local_eq_obtained"),
                (r"^discr\(\^endpoint\)$", "endpoint")]

    def value_of(s):
        e = chk.site_expr(s)
        r = render(e)
        if r.startswith("std::result::Result::Ok{"):
            return "Ok"
        m = re.search(r"PoolEvent::(Pending\w+ConnectionError)\{.*?error: libp2p_swarm::connection::error::\w+::(\w+)\{", r)
        if m:
            return m.group(1) + "/" + m.group(2)
        return "?" + r[:60]
    domain = {"expected": ["Some", "None"], "expected_ne_obtained": ["true", "false"], "local_eq_obtained": ["true", "false"],
              "endpoint": ["Dialer", "Listener"]}

    def ref(a):
        if a["expected"] == "Some" and a["expected_ne_obtained"] == "true":
            if a["endpoint"] == "Dialer":
                return "PendingOutboundConnectionError/WrongPeerId"
            return set()  # inbound connections never carry an expected id: panics (unreachable!)
        if a["local_eq_obtained"] == "true":
            return "PendingOutboundConnectionError/LocalPeerId" if a["endpoint"] == "Dialer" else "PendingInboundConnectionError/LocalPeerId"
        return "Ok"
    lib.check_cells(ctx, "table", "check_peer_id", chk, res, value_of, atom_map, domain, ref, "%s:%d" % (chk.file, chk.line))
    # upvars: expected_peer_id comes from the removed pending entry; obtained from the task event
    call = p.call_sites(re.escape(mir.strip_generics(chk.path)) + "$")
    ctx.floor("origin", "check_peer_id call", call, 1)
    aggs = [s for s in p.stmt_sites(lambda st: st["k"] == "assign" and st["r"]["k"] == "agg" and st["r"].get("def") == chk.path)]
    ctx.floor("origin", "closure construction", aggs, 1)
    if aggs:
        r = render(p.site_expr(aggs[0]))
        ok1 = re.search(r"expect\(std::collections::HashMap::remove\(self\.pending, .*ConnectionEstablished\.id\), '[^']*'\)\.peer_id", r) is not None
        ok2 = "ConnectionEstablished.output.0" in r
        ctx.ob("origin", "expected id = removed PendingConnection.peer_id", ok1, aggs[0].loc(), "closure captures pending.remove(id).peer_id")
        ctx.ob("origin", "obtained id = task event output.0", ok2, aggs[0].loc(), "closure captures the (peer_id, muxer) output of the pending task")
    # Err edge: close + return, no NewConnection / Established
    if call:
        err_edges = lib.switch_edges_on_site(p, call[0], {"Err"})
        ok_edges = lib.switch_edges_on_site(p, call[0], {"Ok"})
        err_t = [t for _, t in err_edges]
        newc = lib.bbs(p.call_sites(r"pool::NewConnection::new$"))
        est = lib.bbs([s for s in p.agg_sites(r"connection::pool::PoolEvent$", "ConnectionEstablished")])
        ctx.floor("err-edge", "NewConnection::new", newc, 1)
        ctx.floor("err-edge", "PoolEvent::ConnectionEstablished", est, 1)
        lib.never_between(ctx, "err-edge", "mismatch never establishes", p, err_t, p.return_blocks(), set(newc) | set(est),
                          "NewConnection::new / PoolEvent::ConnectionEstablished after check_peer_id() failed")
        spawn = lib.bbs(p.call_sites(r"ExecSwitch::spawn$"))
        got = lib.count_range(p, err_t, p.return_blocks(), spawn)
        ctx.ob("err-edge", "mismatching connection is closed", got == (1, 1), call[0].loc(),
               "muxer close task spawned on the Err path: %s (expected (1, 1))" % (got,))
        for b in newc + est:
            ctx.guarded("err-edge", "established requires Ok", mir.Site(p, b),
                        lambda c, r, l: l == "Ok" and any(x[0] == "call" and x[3] == call[0].bb for x in mir.walk(c)),
                        "check_peer_id() == Ok")
