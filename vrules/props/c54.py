"""C54 peer store: permanent addresses survive automatic removal, bounded records, events exactly for additions/removals — constant-argument who-calls (K4/K6), guards (K1), path counting (K2), capacity-enforcing growth primitive lint (K9/K13)."""
import re

from .. import lib, lib_misc as lm, mir
from ..mir import render, strip_generics

EXPLANATION = ("Permanence: every call of add_address_inner / remove_address_inner from Store::on_swarm_event passes the constant `false` "
               "(not permanent / not forced), the public add_address / remove_address pass `true`, there are no other callers, and the flag "
               "parameter is what reaches PeerRecord::{add,remove}_address and the event; PeerRecord::remove_address reaches "
               "addresses.remove only through `force == true` or the refuted test `peek(address) == Some(true)`; PeerRecord::add_address "
               "never overwrites an existing entry with a non-permanent flag; every automatic removal is behind config.remove_addr_on_dial_error. "
               "Bounds: both caches are built by LruCache::new(<the matching capacity>.get()), Config getters/setters touch the matching "
               "field, and every use of a hashlink::LruCache method on `records` / `addresses` is classified against a table of hashlink's "
               "documented semantics: growth is allowed only through LruCache::insert (evicts when len > capacity); the entry API "
               "(documented: 'you can exceed the configured capacity by 1') is rejected; unknown methods fail closed. "
               "Events: PeerAddressAdded is pushed exactly once iff PeerRecord::add_address reported a new address (it reports `true` only "
               "on the absent edge, where it inserts exactly once), PeerAddressRemoved exactly once iff PeerRecord::remove_address reported a "
               "removal, with the call's own peer/address; a whole record is dropped only when its address cache is empty; events are only "
               "constructed in the two *_inner functions, queued by push_event_and_wake on every path and drained one per poll; "
               "peer_store::Behaviour forwards every swarm event to the store and every store event to the swarm.")
ASSUMPTIONS = ["hashlink::LruCache semantics as documented (table HASHLINK below): insert evicts the least recently used entry when len > capacity, "
               "entry()/raw_entry_mut() may exceed the capacity by one, get/get_mut promote, peek does not",
               "LRU eviction (of a peer or of an address, permanent or not) emits no PeerAddressRemoved event and is not decided here",
               "PeerRecord::{add_address, remove_address} are public and reachable through record_iter_mut(): changes made there emit no events (documented)",
               "arbitrary interleavings of API calls and swarm events are not executed"]
PS = "libp2p_peer_store"
MS = r"^libp2p_peer_store::memory_store::MemoryStore::"      # public API names only (add_address, remove_address, new, take_custom_data)
PR = r"^libp2p_peer_store::memory_store::PeerRecord::"       # public API names only (new, add_address, remove_address)
OSE = r"<memory_store::MemoryStore as store::Store>::on_swarm_event$"
# Private items (fields records/pending_events/config/waker/addresses, Config's fields, the two *_inner functions, the
# queue helper, parameter names) are resolved by role in `resolve()`; nothing below mentions them by name.

# hashlink::LruCache method -> effect on the number of entries
HASHLINK = {
    "new": "construct", "insert": "grow-bounded", "entry": "grow-unbounded", "raw_entry_mut": "grow-unbounded", "raw_entry": "read",
    "get": "read", "get_mut": "read", "peek": "read", "peek_mut": "read", "contains_key": "read", "len": "read", "is_empty": "read",
    "iter": "read", "iter_mut": "read", "capacity": "read", "remove": "shrink", "remove_entry": "shrink", "remove_lru": "shrink",
    "clear": "shrink", "drain": "shrink", "retain": "shrink", "new_unbounded": "unbounded", "set_capacity": "rebound", "with_hasher": "construct",
}

SELFTEST = [
    {"mutation": "on_swarm_event DialFailure/Transport: remove_address_inner(&peer, addr, true)", "caught_by": "permanence/on_swarm_event: automatic removal is never forced"},
    {"mutation": "on_swarm_event NewExternalAddrOfPeer: add_address_inner(.., true)", "caught_by": "permanence/on_swarm_event: discovered addresses are not permanent"},
    {"mutation": "PeerRecord::remove_address: `if force && ...` (polarity)", "caught_by": "permanence/PeerRecord::remove_address: removal needs force or a non-permanent entry"},
    {"mutation": "PeerRecord::add_address: existing entry overwritten unconditionally (`insert(address.clone(), is_permanent)` without the guard)",
     "caught_by": "permanence/PeerRecord::add_address: existing entry never downgraded"},
    {"mutation": "remove_address_inner: PeerAddressRemoved pushed before the `record.remove_address` test (event although nothing removed)",
     "caught_by": "events/remover: event only after a reported removal"},
    {"mutation": "add_address_inner: `if !is_new` around the event", "caught_by": "events/adder: event only for a new address"},
    {"mutation": "remove_address_inner: `if record.addresses.is_empty() || record.custom_data.is_none()` drops a record that still has addresses",
     "caught_by": "events/remover: record dropped only when its address cache is empty"},
    {"mutation": "MemoryStore::new: LruCache::new(config.record_capacity().get())", "caught_by": "bounds/records capacity = config.peer_capacity"},
    {"mutation": "(pre-fix tree, F16) add_address_inner inserts through records.entry(..).or_insert_with(..)", "caught_by": "bounds/the adder: LruCache::entry on the records cache"},
    {"mutation": "add_address_inner: `self.records.insert(*peer, record)` of the unknown-peer arm made conditional (`if !is_new {..}`: event without stored address)", "caught_by": "events/adder: a new peer's record is stored once"},
    {"mutation": "insert_custom_data: records.entry(*peer).or_insert(new_record)", "caught_by": "bounds/MemoryStore::insert_custom_data: LruCache::entry on the records cache"},
    {"mutation": "Config::set_peer_capacity writes record_capacity", "caught_by": "bounds/Config::set_peer_capacity writes peer_capacity"},
    {"mutation": "Store::poll returns Pending for a popped PeerAddressRemoved event", "caught_by": "queue/every popped event is delivered"},
    {"mutation": "push_event_and_wake no longer wakes the stored waker", "caught_by": "queue/queue helper: stored waker consulted"},
    {"mutation": "NEUTRAL: rename push_event_and_wake/pending_events (neutral/misc/09.diff), add_address_inner, remove_address_inner, records, force, remove_addr_on_dial_error",
     "caught_by": "(silent, by design: private items are resolved by role)"},
    {"mutation": "DialFailure arm: `if self.config.remove_addr_on_dial_error { return; }`", "caught_by": "permanence/on_swarm_event: automatic removal only when configured"},
]


def arg_const(e, i):
    a = e[2][i]
    return a[1] if a[0] == "const" else None


unnot_edges = lm.unnot_edges
ret_consts = lm.ret_exprs
CLONE = "<libp2p_core::Multiaddr as std::clone::Clone>::clone(%s)"


def lru_uses(prog, field):
    """All calls of hashlink::LruCache methods whose receiver mentions .<field> (crate-wide): (body, method, site)."""
    out = []
    for b in prog.bodies(PS):
        for s in b.call_sites(r"^hashlink::LruCache::\w+$|^hashlink::lru_cache::LruCache::\w+$"):
            e = b.site_expr(s)
            m = strip_generics(b.call_name(s.term)).split("::")[-1]
            if e[2] and re.search(r"(^|\.)%s$" % re.escape(field), render(e[2][0])):
                out.append((b, m, s))
    return out


class Roles:
    pass


def resolve(ctx):
    """Resolve every private name by role (fail closed when a role is not uniquely filled)."""
    prog = ctx.prog
    R = Roles()
    MSA, PRA, CFA = r"memory_store::MemoryStore$", r"memory_store::PeerRecord$", r"memory_store::Config$"
    R.records = lm.field_by_type(prog, PS, MSA, r"LruCache<.*PeerRecord")
    R.queue = lm.field_by_type(prog, PS, MSA, r"VecDeque<.*Event>")
    R.config = lm.field_by_type(prog, PS, MSA, r"(^|::)Config$")
    R.waker = lm.field_by_type(prog, PS, MSA, r"Option<std::task::Waker>")
    R.addresses = lm.field_by_type(prog, PS, PRA, r"LruCache<.*Multiaddr, bool>")
    # Config's private fields through its public getters
    cf = {}
    for getter in ("peer_capacity", "record_capacity", "is_remove_addr_on_dial_error"):
        b = ctx.body(PS, r"memory_store::Config::%s$" % getter)
        rr = [e for _, _, e in ret_consts(b)]
        if len(rr) != 1 or rr[0][0] != "field" or render(rr[0][1]) != "self":
            raise mir.RuleError("Config::%s is not a plain field getter: %s" % (getter, [render(x) for x in rr]))
        cf[getter] = rr[0][2]
    R.peer_cap, R.rec_cap, R.on_dial_error = cf["peer_capacity"], cf["record_capacity"], cf["is_remove_addr_on_dial_error"]
    if len({R.peer_cap, R.rec_cap, R.on_dial_error}) != 3:
        raise mir.RuleError("Config getters read the same field: %s" % cf)
    R.config_fields = [n for n, _ in lm.adt_fields(prog, PS, CFA)]
    # the functions that construct the two events
    makers = {}
    for b in prog.bodies(PS):
        for v in ("PeerAddressAdded", "PeerAddressRemoved"):
            if b.agg_sites(r"memory_store::Event$", v) and "Clone" not in b.npath:
                makers.setdefault(v, []).append(b)
    R.makers = makers
    for v in ("PeerAddressAdded", "PeerAddressRemoved"):
        if len(makers.get(v, [])) != 1:
            raise mir.RuleError("Event::%s is constructed by %s (expected exactly one function)" % (v, [b.npath for b in makers.get(v, [])]))
    R.adder, R.remover = makers["PeerAddressAdded"][0], makers["PeerAddressRemoved"][0]
    ctx.use(R.adder)
    ctx.use(R.remover)
    # queue helpers: methods whose body pushes their own parameter onto self.<queue> on every path
    R.emitters = {}
    for b in prog.bodies(PS):
        if b.kind == "closure" or b.argc < 2:
            continue
        pb = [s for s in b.call_sites(r"VecDeque::push_back$") if render(b.site_expr(s)[2][0]) == "self." + R.queue and b.site_expr(s)[2][1][0] == "arg"]
        if pb and lib.count_range(b, [0], b.return_blocks(), lib.bbs(pb)) == (1, 1):
            R.emitters[b.npath] = (b, pb)
    return R


def emit_sites(R, body):
    """Sites in `body` that queue an event: direct push_back on the queue field or a call of a queue helper."""
    out = [s for s in body.call_sites(r"VecDeque::push_back$") if render(body.site_expr(s)[2][0]) == "self." + R.queue]
    for s in body.call_sites():
        if strip_generics(body.call_name(s.term)) in R.emitters and s.body.npath not in R.emitters:
            out.append(s)
    return out


def check(ctx):
    prog = ctx.prog
    R = resolve(ctx)
    add_i, rem_i = R.adder, R.remover
    AN, RN = add_i.npath.split("::")[-1], rem_i.npath.split("::")[-1]
    ctx.note("roles: records=%s queue=%s config=%s waker=%s addresses=%s peer_cap=%s record_cap=%s dial_error_flag=%s adder=%s remover=%s queue helpers=%s" %
             (R.records, R.queue, R.config, R.waker, R.addresses, R.peer_cap, R.rec_cap, R.on_dial_error, AN, RN, sorted(x.split("::")[-1] for x in R.emitters)))
    ose = ctx.body(PS, OSE)
    radd = ctx.body(PS, PR + r"add_address$")
    rrem = ctx.body(PS, PR + r"remove_address$")
    # parameter roles (by type)
    a_peer, a_addr, a_flag = lm.param_by_type(add_i, r"PeerId"), lm.param_by_type(add_i, r"Multiaddr"), lm.param_by_type(add_i, r"^bool$")
    a_flag_i = lm.param_index_by_type(add_i, r"^bool$") - 1
    r_peer, r_addr, r_flag = lm.param_by_type(rem_i, r"PeerId"), lm.param_by_type(rem_i, r"Multiaddr"), lm.param_by_type(rem_i, r"^bool$")
    r_flag_i = lm.param_index_by_type(rem_i, r"^bool$") - 1
    pa_addr, pa_flag = lm.param_by_type(radd, r"Multiaddr"), lm.param_by_type(radd, r"^bool$")
    pr_addr, pr_flag = lm.param_by_type(rrem, r"Multiaddr"), lm.param_by_type(rrem, r"^bool$")
    REC, ADDR = re.escape(R.records), re.escape(R.addresses)

    OSE_PATH = "libp2p_peer_store::<memory_store::MemoryStore as store::Store>::on_swarm_event"
    # ------------------------------------------------------------------ permanence: who calls the event-producing functions with which flag
    for inner, flag_i, public, floor_auto, role, what_auto, what_pub in (
            (add_i, a_flag_i, "add_address", 3, "adder", "discovered addresses are not permanent", "explicit additions are permanent"),
            (rem_i, r_flag_i, "remove_address", 3, "remover", "automatic removal is never forced", "explicit removal is forced")):
        calls = [s for b in prog.bodies(PS) for s in b.call_sites() if strip_generics(b.call_name(s.term)) == inner.npath]
        # a closure is part of its parent; a private helper is climbed to the API functions that reach it
        OSE_PATH = "libp2p_peer_store::<memory_store::MemoryStore as store::Store>::on_swarm_event"
        pub_path = "libp2p_peer_store::memory_store::MemoryStore::" + public
        roots_of = {s: lm.entry_roots(prog, PS, s) for s in calls}
        by_body = {}
        for s in calls:
            by_body.setdefault(lm.root_name(s.body.npath), []).append(s)
        all_roots = set().union(*roots_of.values()) if roots_of else set()
        ctx.ob("permanence", "callers of the address " + role, all_roots == {OSE_PATH, pub_path}, msg="the %s (%s) is reached from: %s" % (role, inner.npath.split("::")[-1], sorted(all_roots)))
        auto = [s for s in calls if roots_of[s] == {OSE_PATH}]
        ctx.floor("permanence", "on_swarm_event calls of the address " + role, auto, floor_auto)
        for s in auto:
            v = arg_const(s.body.site_expr(s), flag_i)
            ctx.ob("permanence", "on_swarm_event: " + what_auto, v == 0, s.loc(), "%s(.., %s)" % (inner.npath.split("::")[-1], render(s.body.site_expr(s)[2][flag_i])))
        for s in by_body.get(pub_path, []):
            e = s.body.site_expr(s)
            own = [lm.pname(s.body, i) for i in range(1, s.body.argc + 1)]
            passed = [render(a) for i, a in enumerate(e[2]) if i != flag_i]
            ctx.ob("permanence", public + ": " + what_pub, arg_const(e, flag_i) == 1 and passed == own, s.loc(), render(e)[:160])
        ctx.ob("permanence", "the address %s is private" % role, inner.vis not in ("pub", "crate"), "%s:%d" % (inner.file, inner.line), "%s visibility %s" % (inner.npath.split("::")[-1], inner.vis))
    # flag propagation
    c = add_i.call_sites(PR + r"add_address$")
    ctx.floor("permanence", "adder -> PeerRecord::add_address", c, 1)
    for s in c:
        e = add_i.site_expr(s)
        ctx.ob("permanence", "the adder passes its address and permanence flag on", render(e[2][1]) == a_addr and render(e[2][2]) == a_flag, s.loc(), render(e)[-120:])
    c = rem_i.call_sites(PR + r"remove_address$")
    ctx.floor("permanence", "remover -> PeerRecord::remove_address", c, 1, exact=True)
    for s in c:
        e = rem_i.site_expr(s)
        ctx.ob("permanence", "the remover passes its address and force flag on", render(e[2][1]) == r_addr and render(e[2][2]) == r_flag and
               render(e[2][0]).startswith("hashlink::LruCache::") and "(self.%s, %s)" % (R.records, r_peer) in render(e[2][0]), s.loc(), render(e)[-160:])
    # PeerRecord::remove_address
    rm = [s for _, m, s in lru_uses(prog, R.addresses) if s.body is rrem and HASHLINK.get(m) == "shrink"]
    ctx.floor("permanence", "PeerRecord::remove_address removal", rm, 1, exact=True)
    def is_lookup(x):
        return x[0] == "call" and re.search(r"^hashlink::LruCache::(peek|peek_mut|get|get_mut)$", strip_generics(x[1])) is not None and \
            render(x[2][0]) == "self." + R.addresses and render(x[2][1]) == pr_addr

    def is_some_true(x):
        return x[0] == "agg" and x[3] == "Some" and x[4] and x[4][0][1][0] == "const" and x[4][0][1][1] == 1

    def perm_polarity(cnd, lab):
        """'perm' / 'notperm' when the edge (cond, label) decides `the stored flag of <address> is Some(true)` (either
        operand order, eq / ne, BinOp or PartialEq call, matches!-style discriminant + flag tests); else None."""
        t = lm.eq_test(cnd)
        if t and ((is_lookup(t[1]) and is_some_true(t[2])) or (is_lookup(t[2]) and is_some_true(t[1]))):
            holds = (lab == "true") == (t[0] == "eq")
            return "perm" if holds else "notperm"
        if cnd[0] == "discr" and is_lookup(cnd[1]) and lab == "None":
            return "notperm"
        if cnd[0] == "field" and cnd[2] == "0" and cnd[1][0] == "downcast" and cnd[1][2] == "Some" and is_lookup(cnd[1][1]) and lab in ("true", "false"):
            return "perm" if lab == "true" else "notperm"
        return None
    forced = unnot_edges(rrem, lambda cnd, r, l: r == pr_flag and l == "true")
    not_perm = unnot_edges(rrem, lambda cnd, r, l: perm_polarity(cnd, l) == "notperm")
    ctx.ob("permanence", "floor:PeerRecord::remove_address force / permanence tests", len(forced) >= 1 and len(not_perm) >= 1, "%s:%d" % (rrem.file, rrem.line),
           "force edges %s, not-permanent edges %s" % (sorted(forced), sorted(not_perm)), nontrivial=False)
    for s in rm:
        e = rrem.site_expr(s)
        edges = rrem.derive_edges(forced | not_perm) if hasattr(rrem, "derive_edges") else (forced | not_perm)
        ok = bool(forced) and rrem.must_pass_edges(s.bb, edges)
        ctx.ob("permanence", "PeerRecord::remove_address: removal needs force or a non-permanent entry", ok, s.loc(),
               "addresses.remove is reached only through `force` or the refuted `peek(address) == Some(true)`" if ok else "addresses.remove reachable for a permanent address without force")
        ctx.ob("permanence", "PeerRecord::remove_address removes the tested address", render(e[2][1]) == pr_addr, s.loc(), render(e))
    perm = unnot_edges(rrem, lambda cnd, r, l: perm_polarity(cnd, l) == "perm")
    not_forced = unnot_edges(rrem, lambda cnd, r, l: r == pr_flag and l == "false")
    rc = ret_consts(rrem)
    falses = [s for v, s, _ in rc if v == 0]
    if perm and not_forced:
        # paths on which the entry is permanent and the call unforced: start at the permanent edge, never use the forced edge
        got = lib.count_range(rrem, [t for _, t in perm], rrem.return_blocks(), lib.bbs(rm), blocked_edges=forced)
        ctx.ob("permanence", "PeerRecord::remove_address: permanent + unforced => nothing removed", got == (0, 0), "%s:%d" % (rrem.file, rrem.line), "removals on the permanent edge: %s" % (got,))
        got = lib.count_range(rrem, [t for _, t in perm], rrem.return_blocks(), lib.bbs(falses), blocked_edges=forced)
        ctx.ob("permanence", "PeerRecord::remove_address: permanent + unforced => reports false", got == (1, 1), "%s:%d" % (rrem.file, rrem.line), "`false` results on the permanent edge: %s" % (got,))
    others = [render(e) for v, s, e in rc if v is None]
    ctx.ob("events", "PeerRecord::remove_address reports the cache's own removal result",
           all(re.match(r"^std::option::Option::is_some\(hashlink::LruCache::remove\(self\.%s, %s\)\)$" % (ADDR, re.escape(pr_addr)), o) for o in others) and len(others) >= 1 and
           all(v == 0 for v, _, _ in rc if v is not None), "%s:%d" % (rrem.file, rrem.line), "results: %s" % [render(e)[:90] for _, _, e in rc])
    # PeerRecord::add_address
    ins = [s for _, m, s in lru_uses(prog, R.addresses) if s.body is radd and m == "insert"]
    ctx.floor("permanence", "PeerRecord::add_address inserts", ins, 1)
    look = [s for s in radd.call_sites(r"^hashlink::LruCache::(get|get_mut|peek|peek_mut)$") if render(radd.site_expr(s)[2][1]) == pa_addr]
    ctx.floor("permanence", "PeerRecord::add_address lookup", look, 1, exact=True)
    if look:
        lk = look[0]
        LK = r"^discr\(hashlink::LruCache::\w+\(self\.%s, %s\)\)$" % (ADDR, re.escape(pa_addr))
        some = lib.switch_edges_on_site(radd, lk, {"Some"}, LK)
        none = lib.switch_edges_on_site(radd, lk, {"None"}, LK)
        ctx.ob("permanence", "floor:PeerRecord::add_address present/absent edges", len(some) == 1 and len(none) == 1, lk.loc(), "%s / %s" % (sorted(some), sorted(none)), nontrivial=False)
        now_true = unnot_edges(radd, lambda cnd, r, l: r == pa_flag and l == "true")
        rets = radd.return_blocks()
        rc = ret_consts(radd)
        trues = [s for v, s, _ in rc if v == 1]
        fls = [s for v, s, _ in rc if v == 0]
        ctx.ob("events", "PeerRecord::add_address returns constants", all(v in (0, 1) for v, _, _ in rc) and trues and fls, "%s:%d" % (radd.file, radd.line), str([v for v, _, _ in rc]))
        if some:
            reach = radd.reachable([t for _, t in some])
            for s in ins:
                if s.bb not in reach:
                    continue
                edges = radd.derive_edges(now_true | none) if hasattr(radd, "derive_edges") else (now_true | none)
                ok = bool(now_true) and radd.must_pass_edges(s.bb, edges)
                ctx.ob("permanence", "PeerRecord::add_address: existing entry never downgraded", ok, s.loc(),
                       "an existing entry is rewritten only with is_permanent == true" if ok else "an existing (possibly permanent) entry can be rewritten with is_permanent == false")
            got = lib.count_range(radd, [t for _, t in some], rets, lib.bbs(trues))
            ctx.ob("events", "PeerRecord::add_address: known address is not reported as new", got == (0, 0), lk.loc(), "`true` results on the present edge: %s" % (got,))
        if none:
            st = [t for _, t in none]
            got = lib.count_range(radd, st, rets, lib.bbs(ins))
            ctx.ob("events", "PeerRecord::add_address: absent address inserted once", got == (1, 1), lk.loc(), "inserts on the absent edge: %s" % (got,))
            got = lib.count_range(radd, st, rets, lib.bbs(trues))
            ctx.ob("events", "PeerRecord::add_address: absent address reported as new", got == (1, 1), lk.loc(), "`true` results on the absent edge: %s" % (got,))
            got = lib.count_range(radd, st, rets, lib.bbs(fls))
            ctx.ob("events", "PeerRecord::add_address: absent address never reported as known", got == (0, 0), lk.loc(), "`false` results on the absent edge: %s" % (got,))
        for s in ins:
            e = radd.site_expr(s)
            ctx.ob("permanence", "PeerRecord::add_address stores (address, is_permanent)", render(e[2][1]) == CLONE % pa_addr and render(e[2][2]) == pa_flag, s.loc(), render(e)[:200])
    # automatic removal only when configured
    FLAG = "self.%s.%s" % (R.config, R.on_dial_error)
    FLAGS = (FLAG, "^*" + FLAG, "^" + FLAG)

    def flag_pred(cnd, r, l):
        c, lab = lm.unnot(cnd, l)
        rr = render(c)
        return lab == "true" and (rr in FLAGS or re.search(r"Config::is_remove_addr_on_dial_error\(\^?\*?self\.%s\)$" % re.escape(R.config), rr) is not None)
    auto_rm = [x for b_ in prog.bodies(PS) for x in b_.call_sites() if strip_generics(b_.call_name(x.term)) == rem_i.npath and lm.entry_roots(prog, PS, x) == {OSE_PATH}]
    ctx.floor("permanence", "automatic removals", auto_rm, 3)
    for s in auto_rm:
        ok = lm.guarded_up(prog, PS, s, flag_pred)
        ctx.ob("permanence", "on_swarm_event: automatic removal only when configured", ok, s.loc(),
               ("guard present on all paths: " if ok else "a path reaches this removal without the guard: ") + "config.remove_addr_on_dial_error == true")

    # ------------------------------------------------------------------ bounds
    new = ctx.body(PS, MS + r"new$")
    agg = [dict((k, render(v)) for k, v in new.site_expr(s)[4]) for s in new.agg_sites(r"memory_store::MemoryStore$")]
    cfgp = lm.pname(new, 1)
    want = ("hashlink::LruCache::new(std::num::NonZero::get(libp2p_peer_store::memory_store::Config::peer_capacity(%s)))" % cfgp,
            "hashlink::LruCache::new(std::num::NonZero::get(%s.%s))" % (cfgp, R.peer_cap))
    ctx.ob("bounds", "records capacity = config.peer_capacity", len(agg) == 1 and agg[0].get(R.records) in want, "%s:%d" % (new.file, new.line), str([a.get(R.records) for a in agg])[:200])
    rnew = ctx.body(PS, PR + r"new$")
    agg = [dict((k, render(v)) for k, v in rnew.site_expr(s)[4]) for s in rnew.agg_sites(r"memory_store::PeerRecord$")]
    ctx.ob("bounds", "addresses capacity = PeerRecord::new's argument", len(agg) == 1 and agg[0].get(R.addresses) == "hashlink::LruCache::new(std::num::NonZero::get(%s))" % lm.pname(rnew, 1),
           "%s:%d" % (rnew.file, rnew.line), str([a.get(R.addresses) for a in agg])[:200])
    rn_calls = prog.callers(PS, PR + r"new$")
    ctx.floor("bounds", "PeerRecord::new call sites", rn_calls, 2)
    for s in rn_calls:
        r = render(s.body.site_expr(s)[2][0])
        cap = "self.%s.%s" % (R.config, R.rec_cap)
        ok = r in (cap, "^*" + cap, "^" + cap) or re.match(r"^libp2p_peer_store::memory_store::Config::record_capacity\(\^?\*?self\.%s\)$" % re.escape(R.config), r) is not None
        host = s.body.npath.split("memory_store::")[-1].split("::{closure")[0].split("::")[-1]
        role = "the adder" if s.body is add_i or s.body.parent == add_i.path else host
        ctx.ob("bounds", "PeerRecord::new(config.record_capacity) in " + role, ok, s.loc(), r)
    for fn, fld in (("peer_capacity", R.peer_cap), ("record_capacity", R.rec_cap)):
        b = ctx.body(PS, r"memory_store::Config::set_%s$" % fn)
        ws = [(f, render(b.site_expr(s))) for f in R.config_fields for s in b.field_write_sites(f)]
        ctx.ob("bounds", "Config::set_%s writes the field Config::%s reads" % (fn, fn), ws == [(fld, lm.pname(b, 2))], "%s:%d" % (b.file, b.line), str(ws))
    for label, field, floor in (("records", R.records, 10), ("addresses", R.addresses, 7)):
        uses = lru_uses(prog, field)
        ctx.floor("bounds", "LruCache uses of the %s cache" % label, uses, floor)
        for b, m, s in uses:
            eff = HASHLINK.get(m)
            fnname = b.npath.split("memory_store::")[-1]
            if eff in ("read", "shrink", "grow-bounded"):
                continue
            if eff == "construct" and fnname in ("MemoryStore::new", "PeerRecord::new"):
                continue
            why = {"grow-unbounded": "the entry API can exceed the configured capacity by 1 (hashlink documentation) and does not evict",
                   "unbounded": "an unbounded cache has no capacity", "rebound": "capacity is changed after construction",
                   "construct": "cache constructed outside the constructor", None: "method not in the table of hashlink semantics (fail closed)"}[eff]
            role = "the adder" if b is add_i else "the remover" if b is rem_i else fnname
            ctx.ob("bounds", "%s: LruCache::%s on the %s cache" % (role, m, label), False, s.loc(), "growth of a bounded cache must go through LruCache::insert: " + why)
        grows = [(b, m, s) for b, m, s in uses if HASHLINK.get(m) == "grow-bounded"]
        ctx.ob("bounds", "%s grows only through LruCache::insert" % label, len(grows) >= 1 and all(HASHLINK.get(m) != "grow-unbounded" for _, m, _ in uses),
               msg="growth sites: %s" % sorted({"%s/%s" % (b.npath.split("memory_store::")[-1], m) for b, m, _ in uses if (HASHLINK.get(m) or "").startswith("grow")}))
    for b in prog.bodies(PS):
        for label, f in (("records", R.records), ("addresses", R.addresses)):
            for s in b.field_write_sites(f, r"memory_store::(MemoryStore|PeerRecord)"):
                ctx.ob("bounds", "cache %s is never replaced" % label, False, s.loc(), "assignment to .%s in %s" % (f, b.npath))

    # ------------------------------------------------------------------ events
    where = "%s:%d" % (add_i.file, add_i.line)
    pushes = emit_sites(R, add_i)
    ctx.floor("events", "adder: queueing of the event", pushes, 1, exact=True)
    ra = add_i.call_sites(PR + r"add_address$")
    ra_bbs = {x.bb for x in ra}

    def is_report(cnd):
        """the expression is (on every definition) the result of one of the PeerRecord::add_address calls"""
        leaves = lib.value_leaves(add_i, cnd)
        return bool(leaves) and all(x[0] == "call" and x[3] in ra_bbs and re.search(PR[1:] + "add_address$", strip_generics(x[1])) for x in leaves)
    if ra and pushes:
        t_edges = unnot_edges(add_i, lambda cnd, r, l: l == "true" and is_report(cnd))
        f_edges = unnot_edges(add_i, lambda cnd, r, l: l == "false" and is_report(cnd))
        ctx.ob("events", "floor:adder is_new edges", len(t_edges) >= 1 and len(f_edges) >= 1, where, "%s / %s" % (sorted(t_edges), sorted(f_edges)), nontrivial=False)
        rets = add_i.return_blocks()
        for s in pushes:
            ok = bool(t_edges) and add_i.must_pass_edges(s.bb, t_edges)
            ctx.ob("events", "adder: event only for a new address", ok, s.loc(), "PeerAddressAdded is queued only on the is_new edge")
            e = add_i.site_expr(s)
            ev = [x for x in mir.walk(e) if x[0] == "agg" and x[3] == "PeerAddressAdded"]
            f = {k: render(v) for k, v in ev[0][4]} if ev else {}
            ctx.ob("events", "adder: event describes this addition", f == {"peer_id": a_peer, "address": CLONE % a_addr, "is_permanent": a_flag}, s.loc(), str(f))
        if t_edges:
            got = lib.count_range(add_i, [t for _, t in t_edges], rets, lib.bbs(pushes))
            ctx.ob("events", "adder: every new address announced once", got == (1, 1), where, "events queued on the is_new edge: %s" % (got,))
        if f_edges:
            got = lib.count_range(add_i, [t for _, t in f_edges], rets, lib.bbs(pushes))
            ctx.ob("events", "adder: nothing announced for a known address", got == (0, 0), where, "events queued on the !is_new edge: %s" % (got,))
        rr = [e for _, _, e in ret_consts(add_i)]
        ctx.ob("events", "adder returns PeerRecord::add_address's report", len(rr) >= 1 and all(is_report(x) for x in rr), where, str([render(x)[:80] for x in rr]))
        got = lib.count_range(add_i, [0], rets, sorted(ra_bbs))
        ctx.ob("events", "adder updates the record once", got == (1, 1), where, "PeerRecord::add_address calls on all paths: %s" % (got,))
        # the record that received the address is the one kept in the records cache
        look = [s for _, m, s in lru_uses(prog, R.records) if s.body is add_i and m in ("peek", "peek_mut", "get", "get_mut") and render(add_i.site_expr(s)[2][1]) == a_peer]
        ctx.floor("events", "adder: record lookup", look, 1, exact=True)
        for lk in look:
            pat = r"^discr\(hashlink::LruCache::\w+\(self\.%s, %s\)\)$" % (REC, re.escape(a_peer))
            some = lib.switch_edges_on_site(add_i, lk, {"Some"}, pat)
            none = lib.switch_edges_on_site(add_i, lk, {"None"}, pat)
            ctx.ob("events", "floor:adder known/unknown peer edges", len(some) == 1 and len(none) == 1, lk.loc(), "%s / %s" % (sorted(some), sorted(none)), nontrivial=False)
            stores = [s for _, m, s in lru_uses(prog, R.records) if s.body is add_i and m == "insert"]
            for _, t in sorted(some):
                reach = add_i.reachable([t], stop_nodes=rets)
                for s in ra:
                    if s.bb in reach and s.bb not in add_i.reachable([x for _, x in none]):
                        r0 = render(add_i.site_expr(s)[2][0])
                        ctx.ob("events", "adder: known peer's stored record is updated in place", re.match(r"^hashlink::LruCache::\w+\(self\.%s, %s\)@Some\.0$" % (REC, re.escape(a_peer)), r0) is not None, s.loc(), r0)
            for _, t in sorted(none):
                got = lib.count_range(add_i, [t], rets, lib.bbs(stores))
                ctx.ob("events", "adder: a new peer's record is stored once", got == (1, 1), lk.loc(), "records.insert on the unknown-peer edge: %s" % (got,))
                reach = add_i.reachable([t])
                recv = {render(add_i.site_expr(s)[2][0]) for s in ra if s.bb in reach and s.bb not in add_i.reachable([x for _, x in some])}
                for s in stores:
                    e = add_i.site_expr(s)
                    ctx.ob("events", "adder: the stored record is the one that received the address", render(e[2][1]) == a_peer and {render(e[2][2])} == recv, s.loc(),
                           "records.insert(%s, %s); add_address receiver(s) %s" % (render(e[2][1]), render(e[2][2]), sorted(recv)))
                    lib.precedes(ctx, "events", "adder: address added before the record is stored", add_i, [x.bb for x in ra if x.bb in reach], [s.bb], "record.add_address(..) precedes records.insert(peer, record)", s.loc())
    where = "%s:%d" % (rem_i.file, rem_i.line)
    pushes = emit_sites(R, rem_i)
    ctx.floor("events", "remover: queueing of the event", pushes, 1, exact=True)
    rr_ = rem_i.call_sites(PR + r"remove_address$")
    if rr_ and pushes:
        rr_bbs = {x.bb for x in rr_}

        def is_removed(cnd):
            leaves = lib.value_leaves(rem_i, cnd)
            return bool(leaves) and all(x[0] == "call" and x[3] in rr_bbs for x in leaves)
        t_edges = unnot_edges(rem_i, lambda cnd, r, l: l == "true" and is_removed(cnd))
        f_edges = unnot_edges(rem_i, lambda cnd, r, l: l == "false" and is_removed(cnd))
        if hasattr(rem_i, "derive_edges"):
            t_edges = rem_i.derive_edges(t_edges)
        ctx.ob("events", "floor:remover removed edges", len(t_edges) >= 1 and len(f_edges) >= 1, where, "%s / %s" % (sorted(t_edges), sorted(f_edges)), nontrivial=False)
        rets = rem_i.return_blocks()
        rc = ret_consts(rem_i)
        trues = [s for v, s, _ in rc if v == 1]
        ctx.ob("events", "remover returns constants", all(v in (0, 1) for v, _, _ in rc) and trues, where, str([v for v, _, _ in rc]))
        for s in pushes:
            ok = bool(t_edges) and rem_i.must_pass_edges(s.bb, t_edges)
            ctx.ob("events", "remover: event only after a reported removal", ok, s.loc(), "PeerAddressRemoved is queued only on the removed edge")
            e = rem_i.site_expr(s)
            ev = [x for x in mir.walk(e) if x[0] == "agg" and x[3] == "PeerAddressRemoved"]
            f = {k: render(v) for k, v in ev[0][4]} if ev else {}
            ctx.ob("events", "remover: event describes this removal", f == {"peer_id": r_peer, "address": CLONE % r_addr}, s.loc(), str(f))
        for s in trues:
            ok = bool(t_edges) and rem_i.must_pass_edges(s.bb, t_edges)
            ctx.ob("events", "remover: reports true only after a removal", ok, s.loc(), "`true` dominated by the removed edge")
        if t_edges:
            got = lib.count_range(rem_i, [t for _, t in t_edges], rets, lib.bbs(pushes))
            ctx.ob("events", "remover: every removal announced once", got == (1, 1), where, "events queued on the removed edge: %s" % (got,))
        got = lib.count_range(rem_i, [0], rets, lib.bbs(pushes), blocked_edges=t_edges)
        ctx.ob("events", "remover: nothing announced when nothing was removed", got in ((0, 0), None), where, "events queued on paths avoiding the removed edge: %s" % (got,))
        got = lib.count_range(rem_i, [0], rets, sorted(rr_bbs))
        ctx.ob("events", "remover removes at most once", got is not None and got[1] <= 1, where, "PeerRecord::remove_address calls on all paths: %s" % (got,))
    # dropping a whole record
    for b, role in ((rem_i, "remover"), (ctx.body(PS, MS + r"take_custom_data$"), "take_custom_data")):
        bp = lm.param_by_type(b, r"PeerId")
        drops = [s for _, m, s in lru_uses(prog, R.records) if s.body is b and HASHLINK.get(m) == "shrink"]
        ctx.floor("events", role + " record drop", drops, 1, exact=True)
        for s in drops:
            e = b.site_expr(s)
            pat = r"^hashlink::LruCache::is_empty\(hashlink::LruCache::\w+\(self\.%s, %s\)@Some\.0\.%s\)$" % (REC, re.escape(bp), ADDR)
            ctx.guarded("events", role + ": record dropped only when its address cache is empty", s,
                        lambda cnd, r, l, pat=pat: re.match(pat, r) is not None and l == "true", "record.addresses.is_empty()")
            ctx.ob("events", role + ": the dropped record is the inspected peer's", render(e[2][1]) == bp, s.loc(), render(e))
    ctx.ob("events", "each event kind is constructed by exactly one function", {k: len(v) for k, v in R.makers.items()} == {"PeerAddressAdded": 1, "PeerAddressRemoved": 1},
           msg=str({k: [b.npath.split("::")[-1] for b in v] for k, v in R.makers.items()}))
    # queue
    for npath, (pw, pb) in sorted(R.emitters.items()):
        nm = "queue helper"
        ctx.use(pw)
        ctx.ob("queue", nm + " queues its event once on every path", True, "%s:%d" % (pw.file, pw.line), "%s: push_back(self.%s, <param>) on all paths: (1, 1)" % (npath.split("::")[-1], R.queue))
        lm.wake_after(ctx, "queue", nm, pw, pw.succ[pb[0].bb], R.waker)
        ctx.ob("queue", nm + " is private", pw.vis not in ("pub",), "%s:%d" % (pw.file, pw.line), "visibility %s" % pw.vis)
    for b in (add_i, rem_i):
        for s in emit_sites(R, b):
            if strip_generics(b.call_name(s.term)) not in R.emitters:   # direct push in the adder/remover: it must wake itself
                lm.wake_after(ctx, "queue", "direct queueing in " + ("adder" if b is add_i else "remover"), b, b.succ[s.bb], R.waker)
    p = ctx.body(PS, r"<memory_store::MemoryStore as store::Store>::poll$")
    Q = "self." + R.queue
    pops = [s for s in p.call_sites(r"VecDeque::pop_front$") if render(p.site_expr(s)[2][0]) == Q]
    ctx.floor("queue", "poll pop_front", pops, 1, exact=True)
    readies, pend, other = [], [], []
    for d in p.defs.get(0, []):
        s = mir.Site(p, d[1], d[2])
        r = render(p.site_expr(s))
        (readies if r.startswith("std::task::Poll::Ready{") else pend if r.startswith("std::task::Poll::Pending") else other).append((s, r))
    ctx.ob("queue", "poll results are Ready(event) / Pending", not other and readies and pend, "%s:%d" % (p.file, p.line), str([r[:60] for _, r in other]))
    POP = r"^discr\(std::collections::VecDeque::pop_front\(self\.%s\)\)$" % re.escape(R.queue)
    for s in pops:
        some = lib.switch_edges_on_site(p, s, {"Some"}, POP)
        none = lib.switch_edges_on_site(p, s, {"None"}, POP)
        if some:
            got = lib.count_range(p, [t for _, t in some], p.return_blocks(), lib.bbs([x for x, _ in readies]))
            ctx.ob("queue", "every popped event is delivered", got == (1, 1), s.loc(), "Ready results on the Some edge: %s" % (got,))
        for ps, _ in pend:
            ctx.ob("queue", "Pending only when no event is queued", bool(none) and p.must_pass_edges(ps.bb, none), ps.loc(), "Poll::Pending dominated by pop_front == None")
    for s, r in readies:
        ctx.ob("queue", "the delivered event is the popped one", r == "std::task::Poll::Ready{0: std::collections::VecDeque::pop_front(%s)@Some.0}" % Q, s.loc(), r[:140])
    ws = p.field_write_sites(R.waker)
    for ps, _ in pend:
        ctx.ob("queue", "waker stored before Pending", bool(ws) and ps.bb not in p.reachable([0], blocked_nodes=lib.bbs(ws)), ps.loc(), "self.waker = Some(..) on every path to Pending")
    qm = set()
    for b in prog.bodies(PS):
        for s in lib.field_mut_calls(b, R.queue):
            rb = lm.root_body(prog, b)
            role = "emitter" if rb.npath in R.emitters or rb is add_i or rb is rem_i else rb.npath.split("::")[-1]
            qm.add((role, strip_generics(b.call_name(s.term)).split("::")[-1]))
    ctx.ob("queue", "event queue mutators", qm == {("emitter", "push_back"), ("poll", "pop_front")}, msg=str(sorted(qm)))
    # behaviour wrapper
    store_f = lm.field_by_type(prog, PS, r"^libp2p_peer_store::behaviour::Behaviour$", r"^S$")
    bo = ctx.body(PS, r"<behaviour::Behaviour as libp2p_swarm::NetworkBehaviour>::on_swarm_event$")
    fw = [s for s in bo.call_sites(r"store::Store::on_swarm_event$") if [render(a) for a in bo.site_expr(s)[2]] == ["self." + store_f, lm.pname(bo, 2)]]
    got = lib.count_range(bo, [0], bo.return_blocks(), lib.bbs(fw))
    ctx.ob("wrapper", "Behaviour forwards every swarm event to the store once", got == (1, 1), "%s:%d" % (bo.file, bo.line), "Store::on_swarm_event(self.store, event): %s" % (got,))
    bp = ctx.body(PS, r"<behaviour::Behaviour as libp2p_swarm::NetworkBehaviour>::poll$")
    rr = [render(e) for _, _, e in ret_consts(bp)]
    ctx.ob("wrapper", "Behaviour::poll = store.poll(cx).map(ToSwarm::GenerateEvent)",
           rr == ["std::task::Poll::map(libp2p_peer_store::store::Store::poll(self.%s, %s), fn:libp2p_swarm::ToSwarm::GenerateEvent)" % (store_f, lm.pname(bp, 2))],
           "%s:%d" % (bp.file, bp.line), str(rr)[:200])
