"""C54 peer store: permanent addresses survive automatic removal, bounded records, events exactly for additions/removals — constant-argument who-calls (K4/K6), guards (K1), path counting (K2), capacity-enforcing growth primitive lint (K9/K13)."""
import re

from .. import lib, mir
from ..mir import render, strip_generics

EXPLANATION = ("Permanence: every call of add_address_inner / remove_address_inner from Store::on_swarm_event passes the constant `false` "
               "(not permanent / not forced), the public add_address / remove_address pass `true`, there are no other callers, and the flag "
               "parameter is what reaches PeerRecord::{add,remove}_address and the event; PeerRecord::remove_address reaches "
               "addresses.remove only through `force == true` or the refuted test `peek(address) == Some(true)`; PeerRecord::add_address "
               "never overwrites an existing entry with a non-permanent flag; every automatic removal is behind config.remove_addr_on_dial_error. "
               "Bounds: both caches are built by LruCache::new(<the matching capacity>.get()), Config getters/setters touch the matching "
               "field, and every use of a hashlink::LruCache method on `records` / `addresses` is classified against a table of hashlink's "
               "documented semantics: growth is allowed only through LruCache::insert (evicts when len > capacity); the entry API "
               "(documented: 'you can exceed the configured capacity by 1') is rejected; unknown methods fail closed. "
               "Events: PeerAddressAdded is pushed exactly once iff PeerRecord::add_address reported a new address (it reports `true` only "
               "on the absent edge, where it inserts exactly once), PeerAddressRemoved exactly once iff PeerRecord::remove_address reported a "
               "removal, with the call's own peer/address; a whole record is dropped only when its address cache is empty; events are only "
               "constructed in the two *_inner functions, queued by push_event_and_wake on every path and drained one per poll; "
               "peer_store::Behaviour forwards every swarm event to the store and every store event to the swarm.")
ASSUMPTIONS = ["hashlink::LruCache semantics as documented (table HASHLINK below): insert evicts the least recently used entry when len > capacity, "
               "entry()/raw_entry_mut() may exceed the capacity by one, get/get_mut promote, peek does not",
               "LRU eviction (of a peer or of an address, permanent or not) emits no PeerAddressRemoved event and is not decided here",
               "PeerRecord::{add_address, remove_address} are public and reachable through record_iter_mut(): changes made there emit no events (documented)",
               "arbitrary interleavings of API calls and swarm events are not executed"]
PS = "libp2p_peer_store"
MS = r"^libp2p_peer_store::memory_store::MemoryStore::"
PR = r"^libp2p_peer_store::memory_store::PeerRecord::"
OSE = r"<memory_store::MemoryStore as store::Store>::on_swarm_event$"

# hashlink::LruCache method -> effect on the number of entries
HASHLINK = {
    "new": "construct", "insert": "grow-bounded", "entry": "grow-unbounded", "raw_entry_mut": "grow-unbounded", "raw_entry": "read",
    "get": "read", "get_mut": "read", "peek": "read", "peek_mut": "read", "contains_key": "read", "len": "read", "is_empty": "read",
    "iter": "read", "iter_mut": "read", "capacity": "read", "remove": "shrink", "remove_entry": "shrink", "remove_lru": "shrink",
    "clear": "shrink", "drain": "shrink", "retain": "shrink", "new_unbounded": "unbounded", "set_capacity": "rebound", "with_hasher": "construct",
}

SELFTEST = [
    {"mutation": "on_swarm_event DialFailure/Transport: remove_address_inner(&peer, addr, true)", "caught_by": "permanence/on_swarm_event: automatic removal is never forced"},
    {"mutation": "on_swarm_event NewExternalAddrOfPeer: add_address_inner(.., true)", "caught_by": "permanence/on_swarm_event: discovered addresses are not permanent"},
    {"mutation": "PeerRecord::remove_address: `if force && ...` (polarity)", "caught_by": "permanence/PeerRecord::remove_address: removal needs force or a non-permanent entry"},
    {"mutation": "PeerRecord::add_address: existing entry overwritten unconditionally (`insert(address.clone(), is_permanent)` without the guard)",
     "caught_by": "permanence/PeerRecord::add_address: existing entry never downgraded"},
    {"mutation": "remove_address_inner: PeerAddressRemoved pushed before the `record.remove_address` test (event although nothing removed)",
     "caught_by": "events/remove_address_inner: event only after a reported removal"},
    {"mutation": "add_address_inner: `if !is_new` around the event", "caught_by": "events/add_address_inner: event only for a new address"},
    {"mutation": "remove_address_inner: `if record.addresses.is_empty() || record.custom_data.is_none()` drops a record that still has addresses",
     "caught_by": "events/remove_address_inner: record dropped only when its address cache is empty"},
    {"mutation": "MemoryStore::new: LruCache::new(config.record_capacity().get())", "caught_by": "bounds/records capacity = config.peer_capacity"},
    {"mutation": "(pre-fix tree, F16) add_address_inner inserts through records.entry(..).or_insert_with(..)", "caught_by": "bounds/MemoryStore::add_address_inner: LruCache::entry on records"},
    {"mutation": "add_address_inner: `self.records.insert(*peer, record)` of the unknown-peer arm made conditional (`if !is_new {..}`: event without stored address)", "caught_by": "events/add_address_inner: a new peer's record is stored once"},
    {"mutation": "insert_custom_data: records.entry(*peer).or_insert(new_record)", "caught_by": "bounds/MemoryStore::insert_custom_data: LruCache::entry on records"},
    {"mutation": "Config::set_peer_capacity writes record_capacity", "caught_by": "bounds/Config::set_peer_capacity writes peer_capacity"},
    {"mutation": "Store::poll returns Pending for a popped PeerAddressRemoved event", "caught_by": "queue/every popped event is delivered"},
    {"mutation": "DialFailure arm: `if self.config.remove_addr_on_dial_error { return; }`", "caught_by": "permanence/on_swarm_event: automatic removal only when configured"},
]


def arg_const(e, i):
    a = e[2][i]
    return a[1] if a[0] == "const" else None


def unnot_edges(body, pred):
    out = set()
    for bi in body.live:
        info = body.switch_info(bi)
        if not info:
            continue
        for tgt, ls in info[1].items():
            if not ls:
                continue
            good = True
            for l in ls:
                c, lab = info[0], l
                while c[0] == "un" and c[1] == "Not" and lab in ("true", "false"):
                    c, lab = c[2], ("false" if lab == "true" else "true")
                if not pred(c, render(c), lab):
                    good = False
            if good:
                out.add((bi, tgt))
    return out


def ret_consts(body):
    """[(value or None, Site)] for every assignment of the return place."""
    out = []
    for d in body.defs.get(0, []):
        s = mir.Site(body, d[1], d[2])
        e = body.site_expr(s)
        out.append((e[1] if e[0] == "const" else None, s, e))
    return out


def lru_uses(prog, field):
    """All calls of hashlink::LruCache methods whose receiver mentions .<field> (crate-wide): (body, method, site)."""
    out = []
    for b in prog.bodies(PS):
        for s in b.call_sites(r"^hashlink::LruCache::\w+$|^hashlink::lru_cache::LruCache::\w+$"):
            e = b.site_expr(s)
            m = strip_generics(b.call_name(s.term)).split("::")[-1]
            if e[2] and re.search(r"(^|\.)%s$" % field, render(e[2][0])):
                out.append((b, m, s))
    return out


def check(ctx):
    prog = ctx.prog
    add_i = ctx.body(PS, MS + r"add_address_inner$")
    rem_i = ctx.body(PS, MS + r"remove_address_inner$")
    ose = ctx.body(PS, OSE)
    radd = ctx.body(PS, PR + r"add_address$")
    rrem = ctx.body(PS, PR + r"remove_address$")

    # ------------------------------------------------------------------ permanence: who calls the inner functions with which flag
    for inner, public, floor_auto, what_auto, what_pub in (
            ("add_address_inner", "add_address", 3, "discovered addresses are not permanent", "explicit additions are permanent"),
            ("remove_address_inner", "remove_address", 3, "automatic removal is never forced", "explicit removal is forced")):
        calls = prog.callers(PS, MS + inner + "$")
        by_body = {}
        for s in calls:
            by_body.setdefault(s.body.npath, []).append(s)
        want = {"libp2p_peer_store::<memory_store::MemoryStore as store::Store>::on_swarm_event", "libp2p_peer_store::memory_store::MemoryStore::" + public}
        ctx.ob("permanence", "callers of " + inner, set(by_body) == want, msg="callers: %s" % sorted(by_body))
        auto = [s for s in calls if s.body.npath.endswith("Store>::on_swarm_event") or "Store>::on_swarm_event::" in s.body.npath]
        ctx.floor("permanence", "on_swarm_event calls of " + inner, auto, floor_auto)
        for s in auto:
            v = arg_const(s.body.site_expr(s), 3)
            ctx.ob("permanence", "on_swarm_event: " + what_auto, v == 0, s.loc(), "%s(.., %s)" % (inner, render(s.body.site_expr(s)[2][3])))
        for s in by_body.get("libp2p_peer_store::memory_store::MemoryStore::" + public, []):
            e = s.body.site_expr(s)
            ctx.ob("permanence", public + ": " + what_pub, arg_const(e, 3) == 1 and [render(a) for a in e[2][:3]] == ["self", "peer", "address"], s.loc(), render(e)[:160])
        ctx.ob("permanence", inner + " is private", all(v not in ("pub", "crate") for _, v in prog.fn_vis(PS, MS + inner + "$")), msg=str(prog.fn_vis(PS, MS + inner + "$")))
    # flag propagation
    c = add_i.call_sites(PR + r"add_address$")
    ctx.floor("permanence", "add_address_inner -> PeerRecord::add_address", c, 1)
    for s in c:
        e = add_i.site_expr(s)
        ctx.ob("permanence", "add_address_inner passes its address and permanence flag on", render(e[2][1]) == "address" and render(e[2][2]) == "is_permanent", s.loc(), render(e)[-120:])
    c = rem_i.call_sites(PR + r"remove_address$")
    ctx.floor("permanence", "remove_address_inner -> PeerRecord::remove_address", c, 1, exact=True)
    for s in c:
        e = rem_i.site_expr(s)
        ctx.ob("permanence", "remove_address_inner passes its address and force flag on", render(e[2][1]) == "address" and render(e[2][2]) == "force" and
               render(e[2][0]).startswith("hashlink::LruCache::") and "(self.records, peer)" in render(e[2][0]), s.loc(), render(e)[-160:])
    # PeerRecord::remove_address
    rm = [s for _, m, s in lru_uses(prog, "addresses") if s.body is rrem and HASHLINK.get(m) == "shrink"]
    ctx.floor("permanence", "PeerRecord::remove_address removal", rm, 1, exact=True)
    forced = unnot_edges(rrem, lambda cnd, r, l: r == "force" and l == "true")
    not_perm = unnot_edges(rrem, lambda cnd, r, l: (
        (re.match(r"^<std::option::Option as std::cmp::PartialEq>::eq\(hashlink::LruCache::peek\(self\.addresses, address\), std::option::Option::Some\{0: 1\}\)$", r) and l == "false") or
        (re.match(r"^<std::option::Option as std::cmp::PartialEq>::ne\(hashlink::LruCache::peek\(self\.addresses, address\), std::option::Option::Some\{0: 1\}\)$", r) and l == "true") or
        (r == "discr(hashlink::LruCache::peek(self.addresses, address))" and l == "None") or
        (r == "hashlink::LruCache::peek(self.addresses, address)@Some.0" and l == "false")))
    ctx.ob("permanence", "floor:PeerRecord::remove_address force / permanence tests", len(forced) >= 1 and len(not_perm) >= 1, "%s:%d" % (rrem.file, rrem.line),
           "force edges %s, not-permanent edges %s" % (sorted(forced), sorted(not_perm)), nontrivial=False)
    for s in rm:
        e = rrem.site_expr(s)
        ok = bool(forced) and rrem.must_pass_edges(s.bb, forced | not_perm)
        ctx.ob("permanence", "PeerRecord::remove_address: removal needs force or a non-permanent entry", ok, s.loc(),
               "addresses.remove is reached only through `force` or the refuted `peek(address) == Some(true)`" if ok else "addresses.remove reachable for a permanent address without force")
        ctx.ob("permanence", "PeerRecord::remove_address removes the tested address", render(e[2][1]) == "address", s.loc(), render(e))
    # the unforced + permanent path returns false
    perm = unnot_edges(rrem, lambda cnd, r, l: (
        re.match(r"^<std::option::Option as std::cmp::PartialEq>::eq\(hashlink::LruCache::peek\(self\.addresses, address\), std::option::Option::Some\{0: 1\}\)$", r) and l == "true") or
        (r == "hashlink::LruCache::peek(self.addresses, address)@Some.0" and l == "true"))
    rc = ret_consts(rrem)
    falses = [s for v, s, _ in rc if v == 0]
    if perm:
        got = lib.count_range(rrem, [t for _, t in perm], rrem.return_blocks(), lib.bbs(rm))
        ctx.ob("permanence", "PeerRecord::remove_address: permanent + unforced => nothing removed", got == (0, 0), "%s:%d" % (rrem.file, rrem.line), "removals on the permanent edge: %s" % (got,))
        got = lib.count_range(rrem, [t for _, t in perm], rrem.return_blocks(), lib.bbs(falses))
        ctx.ob("permanence", "PeerRecord::remove_address: permanent + unforced => reports false", got == (1, 1), "%s:%d" % (rrem.file, rrem.line), "`false` results on the permanent edge: %s" % (got,))
    others = [render(e) for v, s, e in rc if v is None]
    ctx.ob("events", "PeerRecord::remove_address reports the cache's own removal result", others == ["std::option::Option::is_some(hashlink::LruCache::remove(self.addresses, address))"] and
           all(v == 0 for v, _, _ in rc if v is not None), "%s:%d" % (rrem.file, rrem.line), "results: %s" % [render(e)[:90] for _, _, e in rc])
    # PeerRecord::add_address
    ins = [s for _, m, s in lru_uses(prog, "addresses") if s.body is radd and m == "insert"]
    ctx.floor("permanence", "PeerRecord::add_address inserts", ins, 1)
    look = [s for s in radd.call_sites(r"^hashlink::LruCache::(get|get_mut|peek|peek_mut)$") if render(radd.site_expr(s)[2][1]) == "address"]
    ctx.floor("permanence", "PeerRecord::add_address lookup", look, 1, exact=True)
    if look:
        lk = look[0]
        some = lib.switch_edges_on_site(radd, lk, {"Some"}, r"^discr\(hashlink::LruCache::\w+\(self\.addresses, address\)\)$")
        none = lib.switch_edges_on_site(radd, lk, {"None"}, r"^discr\(hashlink::LruCache::\w+\(self\.addresses, address\)\)$")
        ctx.ob("permanence", "floor:PeerRecord::add_address present/absent edges", len(some) == 1 and len(none) == 1, lk.loc(), "%s / %s" % (sorted(some), sorted(none)), nontrivial=False)
        was_false = unnot_edges(radd, lambda cnd, r, l: re.match(r"^hashlink::LruCache::\w+\(self\.addresses, address\)@Some\.0$", r) and l == "false")
        now_true = unnot_edges(radd, lambda cnd, r, l: r == "is_permanent" and l == "true")
        rets = radd.return_blocks()
        rc = ret_consts(radd)
        trues = [s for v, s, _ in rc if v == 1]
        fls = [s for v, s, _ in rc if v == 0]
        ctx.ob("events", "PeerRecord::add_address returns constants", all(v in (0, 1) for v, _, _ in rc) and trues and fls, "%s:%d" % (radd.file, radd.line), str([v for v, _, _ in rc]))
        if some:
            reach = radd.reachable([t for _, t in some])
            for s in ins:
                if s.bb not in reach:
                    continue
                ok = bool(now_true) and radd.must_pass_edges(s.bb, now_true | none)
                ctx.ob("permanence", "PeerRecord::add_address: existing entry never downgraded", ok, s.loc(),
                       "an existing entry is rewritten only with is_permanent == true" if ok else "an existing (possibly permanent) entry can be rewritten with is_permanent == false")
            got = lib.count_range(radd, [t for _, t in some], rets, lib.bbs(trues))
            ctx.ob("events", "PeerRecord::add_address: known address is not reported as new", got == (0, 0), lk.loc(), "`true` results on the present edge: %s" % (got,))
        if none:
            st = [t for _, t in none]
            got = lib.count_range(radd, st, rets, lib.bbs(ins))
            ctx.ob("events", "PeerRecord::add_address: absent address inserted once", got == (1, 1), lk.loc(), "inserts on the absent edge: %s" % (got,))
            got = lib.count_range(radd, st, rets, lib.bbs(trues))
            ctx.ob("events", "PeerRecord::add_address: absent address reported as new", got == (1, 1), lk.loc(), "`true` results on the absent edge: %s" % (got,))
            got = lib.count_range(radd, st, rets, lib.bbs(fls))
            ctx.ob("events", "PeerRecord::add_address: absent address never reported as known", got == (0, 0), lk.loc(), "`false` results on the absent edge: %s" % (got,))
        for s in ins:
            e = radd.site_expr(s)
            ctx.ob("permanence", "PeerRecord::add_address stores (address, is_permanent)", render(e[2][1]) == "<libp2p_core::Multiaddr as std::clone::Clone>::clone(address)" and render(e[2][2]) == "is_permanent", s.loc(), render(e)[:200])
    # automatic removal only when configured
    for s in ose.call_sites(MS + r"remove_address_inner$"):
        ctx.guarded("permanence", "on_swarm_event: automatic removal only when configured", s,
                    lambda cnd, r, l: (r == "self.config.remove_addr_on_dial_error" and l == "true") or (r == "Not(self.config.remove_addr_on_dial_error)" and l == "false"),
                    "config.remove_addr_on_dial_error == true")

    # ------------------------------------------------------------------ bounds
    new = ctx.body(PS, MS + r"new$")
    agg = [render(new.site_expr(s)) for s in new.agg_sites(r"memory_store::MemoryStore$")]
    ctx.ob("bounds", "records capacity = config.peer_capacity", len(agg) == 1 and
           "records: hashlink::LruCache::new(std::num::NonZero::get(libp2p_peer_store::memory_store::Config::peer_capacity(config)))" in agg[0], "%s:%d" % (new.file, new.line), str(agg)[:200])
    rnew = ctx.body(PS, PR + r"new$")
    agg = [render(rnew.site_expr(s)) for s in rnew.agg_sites(r"memory_store::PeerRecord$")]
    ctx.ob("bounds", "addresses capacity = PeerRecord::new's argument", len(agg) == 1 and "addresses: hashlink::LruCache::new(std::num::NonZero::get(cap))" in agg[0], "%s:%d" % (rnew.file, rnew.line), str(agg)[:200])
    rn_calls = prog.callers(PS, PR + r"new$")
    ctx.floor("bounds", "PeerRecord::new call sites", rn_calls, 2)
    for s in rn_calls:
        r = render(s.body.site_expr(s)[2][0])
        ctx.ob("bounds", "PeerRecord::new(config.record_capacity) in " + s.body.short.split("::")[-1 if s.body.kind != "closure" else -2], r in ("self.config.record_capacity", "^*self.config.record_capacity", "^self.config.record_capacity"), s.loc(), r)
    for fn, fld in (("peer_capacity", "peer_capacity"), ("record_capacity", "record_capacity")):
        b = ctx.body(PS, r"memory_store::Config::%s$" % fn)
        rr = [render(e) for _, _, e in ret_consts(b)]
        ctx.ob("bounds", "Config::%s reads %s" % (fn, fld), rr == ["self." + fld], "%s:%d" % (b.file, b.line), str(rr))
        b = ctx.body(PS, r"memory_store::Config::set_%s$" % fn)
        ws = [(f, render(b.site_expr(s))) for f in ("peer_capacity", "record_capacity", "remove_addr_on_dial_error") for s in b.field_write_sites(f)]
        ctx.ob("bounds", "Config::set_%s writes %s" % (fn, fld), ws == [(fld, "capacity")], "%s:%d" % (b.file, b.line), str(ws))
    for field, owner_ok in (("records", r"memory_store::MemoryStore::|<memory_store::MemoryStore as "), ("addresses", r"memory_store::PeerRecord::|memory_store::MemoryStore::(remove_address_inner|take_custom_data)$")):
        uses = lru_uses(prog, field)
        ctx.floor("bounds", "LruCache uses of " + field, uses, 10 if field == "records" else 7)
        for b, m, s in uses:
            eff = HASHLINK.get(m)
            fnname = b.npath.split("memory_store::")[-1]
            if eff in ("read", "shrink", "grow-bounded"):
                continue
            if eff == "construct" and fnname in ("MemoryStore::new", "PeerRecord::new"):
                continue
            why = {"grow-unbounded": "the entry API can exceed the configured capacity by 1 (hashlink documentation) and does not evict",
                   "unbounded": "an unbounded cache has no capacity", "rebound": "capacity is changed after construction",
                   "construct": "cache constructed outside the constructor", None: "method not in the table of hashlink semantics (fail closed)"}[eff]
            ctx.ob("bounds", "%s: LruCache::%s on %s" % (fnname, m, field), False, s.loc(), "growth of a bounded cache must go through LruCache::insert: " + why)
        grows = [(b, m, s) for b, m, s in uses if HASHLINK.get(m) == "grow-bounded"]
        ctx.ob("bounds", "%s grows only through LruCache::insert" % field, len(grows) >= 1 and all(HASHLINK.get(m) != "grow-unbounded" for _, m, _ in uses),
               msg="growth sites: %s" % sorted({"%s/%s" % (b.npath.split("memory_store::")[-1], m) for b, m, _ in uses if (HASHLINK.get(m) or "").startswith("grow")}))
    # every field write of records/addresses is a constructor aggregate (no replacement of the cache)
    for b in prog.bodies(PS):
        for f in ("records", "addresses"):
            for s in b.field_write_sites(f, r"memory_store::(MemoryStore|PeerRecord)"):
                ctx.ob("bounds", "cache %s is never replaced" % f, False, s.loc(), "assignment to .%s in %s" % (f, b.npath))

    # ------------------------------------------------------------------ events
    where = "%s:%d" % (add_i.file, add_i.line)
    pushes = add_i.call_sites(MS + r"push_event_and_wake$")
    ctx.floor("events", "add_address_inner push", pushes, 1, exact=True)
    ra = add_i.call_sites(PR + r"add_address$")
    ra_bbs = {x.bb for x in ra}

    def is_report(cnd):
        """the expression is (on every definition) the result of one of the PeerRecord::add_address calls"""
        leaves = lib.value_leaves(add_i, cnd)
        return bool(leaves) and all(x[0] == "call" and x[3] in ra_bbs and re.search(PR[1:] + "add_address$", strip_generics(x[1])) for x in leaves)
    if ra and pushes:
        t_edges = unnot_edges(add_i, lambda cnd, r, l: l == "true" and is_report(cnd))
        f_edges = unnot_edges(add_i, lambda cnd, r, l: l == "false" and is_report(cnd))
        ctx.ob("events", "floor:add_address_inner is_new edges", len(t_edges) >= 1 and len(f_edges) >= 1, where, "%s / %s" % (sorted(t_edges), sorted(f_edges)), nontrivial=False)
        rets = add_i.return_blocks()
        for s in pushes:
            ok = bool(t_edges) and add_i.must_pass_edges(s.bb, t_edges)
            ctx.ob("events", "add_address_inner: event only for a new address", ok, s.loc(), "PeerAddressAdded is pushed only on the is_new edge")
            e = add_i.site_expr(s)
            ev = [x for x in mir.walk(e) if x[0] == "agg" and x[3] == "PeerAddressAdded"]
            f = {k: render(v) for k, v in ev[0][4]} if ev else {}
            ctx.ob("events", "add_address_inner: event describes this addition", f == {"peer_id": "peer", "address": "<libp2p_core::Multiaddr as std::clone::Clone>::clone(address)", "is_permanent": "is_permanent"}, s.loc(), str(f))
        if t_edges:
            got = lib.count_range(add_i, [t for _, t in t_edges], rets, lib.bbs(pushes))
            ctx.ob("events", "add_address_inner: every new address announced once", got == (1, 1), where, "pushes on the is_new edge: %s" % (got,))
        if f_edges:
            got = lib.count_range(add_i, [t for _, t in f_edges], rets, lib.bbs(pushes))
            ctx.ob("events", "add_address_inner: nothing announced for a known address", got == (0, 0), where, "pushes on the !is_new edge: %s" % (got,))
        rr = [e for _, _, e in ret_consts(add_i)]
        ctx.ob("events", "add_address_inner returns PeerRecord::add_address's report", len(rr) >= 1 and all(is_report(x) for x in rr), where, str([render(x)[:80] for x in rr]))
        got = lib.count_range(add_i, [0], rets, sorted(ra_bbs))
        ctx.ob("events", "add_address_inner updates the record once", got == (1, 1), where, "PeerRecord::add_address calls on all paths: %s" % (got,))
        # the record that received the address is the one kept in `records`
        look = [s for _, m, s in lru_uses(prog, "records") if s.body is add_i and m in ("peek", "peek_mut", "get", "get_mut") and render(add_i.site_expr(s)[2][1]) == "peer"]
        ctx.floor("events", "add_address_inner record lookup", look, 1, exact=True)
        for lk in look:
            pat = r"^discr\(hashlink::LruCache::\w+\(self\.records, peer\)\)$"
            some = lib.switch_edges_on_site(add_i, lk, {"Some"}, pat)
            none = lib.switch_edges_on_site(add_i, lk, {"None"}, pat)
            ctx.ob("events", "floor:add_address_inner known/unknown peer edges", len(some) == 1 and len(none) == 1, lk.loc(), "%s / %s" % (sorted(some), sorted(none)), nontrivial=False)
            stores = [s for _, m, s in lru_uses(prog, "records") if s.body is add_i and m == "insert"]
            for _, t in sorted(some):
                reach = add_i.reachable([t], stop_nodes=rets)
                for s in ra:
                    if s.bb in reach and s.bb not in add_i.reachable([x for _, x in none]):
                        r0 = render(add_i.site_expr(s)[2][0])
                        ctx.ob("events", "add_address_inner: known peer's stored record is updated in place", re.match(r"^hashlink::LruCache::\w+\(self\.records, peer\)@Some\.0$", r0) is not None, s.loc(), r0)
            for _, t in sorted(none):
                got = lib.count_range(add_i, [t], rets, lib.bbs(stores))
                ctx.ob("events", "add_address_inner: a new peer's record is stored once", got == (1, 1), lk.loc(), "records.insert on the unknown-peer edge: %s" % (got,))
                reach = add_i.reachable([t])
                recv = {render(add_i.site_expr(s)[2][0]) for s in ra if s.bb in reach and s.bb not in add_i.reachable([x for _, x in some])}
                for s in stores:
                    e = add_i.site_expr(s)
                    ctx.ob("events", "add_address_inner: the stored record is the one that received the address", render(e[2][1]) == "peer" and {render(e[2][2])} == recv, s.loc(),
                           "records.insert(%s, %s); add_address receiver(s) %s" % (render(e[2][1]), render(e[2][2]), sorted(recv)))
                    # the address is added before the record is moved into the cache
                    lib.precedes(ctx, "events", "add_address_inner: address added before the record is stored", add_i, [x.bb for x in ra if x.bb in reach], [s.bb], "record.add_address(..) precedes records.insert(peer, record)", s.loc())
    where = "%s:%d" % (rem_i.file, rem_i.line)
    pushes = rem_i.call_sites(MS + r"push_event_and_wake$")
    ctx.floor("events", "remove_address_inner push", pushes, 1, exact=True)
    rr_ = rem_i.call_sites(PR + r"remove_address$")
    if rr_ and pushes:
        t_edges = unnot_edges(rem_i, lambda cnd, r, l: cnd[0] == "call" and cnd[3] == rr_[0].bb and l == "true")
        f_edges = unnot_edges(rem_i, lambda cnd, r, l: cnd[0] == "call" and cnd[3] == rr_[0].bb and l == "false")
        ctx.ob("events", "floor:remove_address_inner removed edges", len(t_edges) >= 1 and len(f_edges) >= 1, where, "%s / %s" % (sorted(t_edges), sorted(f_edges)), nontrivial=False)
        rets = rem_i.return_blocks()
        rc = ret_consts(rem_i)
        trues = [s for v, s, _ in rc if v == 1]
        ctx.ob("events", "remove_address_inner returns constants", all(v in (0, 1) for v, _, _ in rc) and trues, where, str([v for v, _, _ in rc]))
        for s in pushes:
            ok = bool(t_edges) and rem_i.must_pass_edges(s.bb, t_edges)
            ctx.ob("events", "remove_address_inner: event only after a reported removal", ok, s.loc(), "PeerAddressRemoved is pushed only on the removed edge")
            e = rem_i.site_expr(s)
            ev = [x for x in mir.walk(e) if x[0] == "agg" and x[3] == "PeerAddressRemoved"]
            f = {k: render(v) for k, v in ev[0][4]} if ev else {}
            ctx.ob("events", "remove_address_inner: event describes this removal", f == {"peer_id": "peer", "address": "<libp2p_core::Multiaddr as std::clone::Clone>::clone(address)"}, s.loc(), str(f))
        for s in trues:
            ok = bool(t_edges) and rem_i.must_pass_edges(s.bb, t_edges)
            ctx.ob("events", "remove_address_inner: reports true only after a removal", ok, s.loc(), "`true` dominated by the removed edge")
        if t_edges:
            got = lib.count_range(rem_i, [t for _, t in t_edges], rets, lib.bbs(pushes))
            ctx.ob("events", "remove_address_inner: every removal announced once", got == (1, 1), where, "pushes on the removed edge: %s" % (got,))
        got = lib.count_range(rem_i, [0], rets, lib.bbs(pushes), blocked_edges=t_edges)
        ctx.ob("events", "remove_address_inner: nothing announced when nothing was removed", got == (0, 0), where, "pushes on paths avoiding the removed edge: %s" % (got,))
        got = lib.count_range(rem_i, [0], rets, [rr_[0].bb])
        ctx.ob("events", "remove_address_inner removes at most once", got is not None and got[1] <= 1, where, "PeerRecord::remove_address calls on all paths: %s" % (got,))
    # dropping a whole record
    for b in (rem_i, ctx.body(PS, MS + r"take_custom_data$")):
        drops = [s for _, m, s in lru_uses(prog, "records") if s.body is b and HASHLINK.get(m) == "shrink"]
        ctx.floor("events", b.short.split("::")[-1] + " record drop", drops, 1, exact=True)
        for s in drops:
            e = b.site_expr(s)
            ctx.guarded("events", b.short.split("::")[-1] + ": record dropped only when its address cache is empty", s,
                        lambda cnd, r, l: re.match(r"^hashlink::LruCache::is_empty\(hashlink::LruCache::\w+\(self\.records, peer\)@Some\.0\.addresses\)$", r) is not None and l == "true",
                        "record.addresses.is_empty()")
            ctx.ob("events", b.short.split("::")[-1] + ": the dropped record is the inspected peer's", render(e[2][1]) == "peer", s.loc(), render(e))
    # who constructs events
    makers = {}
    for b in prog.bodies(PS):
        for v in ("PeerAddressAdded", "PeerAddressRemoved"):
            if b.agg_sites(r"memory_store::Event$", v) and "Clone" not in b.npath:
                makers.setdefault(v, set()).add(b.npath.split("::")[-1])
    ctx.ob("events", "events are constructed only by the two inner functions", makers == {"PeerAddressAdded": {"add_address_inner"}, "PeerAddressRemoved": {"remove_address_inner"}}, msg=str(makers))
    # queue
    pw = ctx.body(PS, MS + r"push_event_and_wake$")
    pb = [s for s in pw.call_sites(r"VecDeque::push_back$") if [render(a) for a in pw.site_expr(s)[2]] == ["self.pending_events", "event"]]
    got = lib.count_range(pw, [0], pw.return_blocks(), lib.bbs(pb))
    ctx.ob("queue", "push_event_and_wake queues its event once on every path", got == (1, 1), "%s:%d" % (pw.file, pw.line), "push_back(self.pending_events, event): %s" % (got,))
    takes = [s for s in pw.call_sites(r"Option::take$") if render(pw.site_expr(s)[2][0]) == "self.waker"]
    for tk in takes[:1]:
        some = lib.switch_edges_on_site(pw, tk, {"Some"}, r"^discr\(std::option::Option::take\(self\.waker\)\)$")
        got = lib.count_range(pw, [t for _, t in some], pw.return_blocks(), lib.bbs(pw.call_sites(r"task::Waker::wake(_by_ref)?$"))) if some else None
        ctx.ob("queue", "push_event_and_wake wakes a stored waker", got == (1, 1), tk.loc(), "wake() on the Some(waker) edge: %s" % (got,))
    ctx.floor("queue", "waker.take in push_event_and_wake", takes, 1)
    p = ctx.body(PS, r"<memory_store::MemoryStore as store::Store>::poll$")
    pops = [s for s in p.call_sites(r"VecDeque::pop_front$") if render(p.site_expr(s)[2][0]) == "self.pending_events"]
    ctx.floor("queue", "poll pop_front", pops, 1, exact=True)
    readies, pend, other = [], [], []
    for d in p.defs.get(0, []):
        s = mir.Site(p, d[1], d[2])
        r = render(p.site_expr(s))
        (readies if r.startswith("std::task::Poll::Ready{") else pend if r.startswith("std::task::Poll::Pending") else other).append((s, r))
    ctx.ob("queue", "poll results are Ready(event) / Pending", not other and readies and pend, "%s:%d" % (p.file, p.line), str([r[:60] for _, r in other]))
    for s in pops:
        some = lib.switch_edges_on_site(p, s, {"Some"}, r"^discr\(std::collections::VecDeque::pop_front\(self\.pending_events\)\)$")
        none = lib.switch_edges_on_site(p, s, {"None"}, r"^discr\(std::collections::VecDeque::pop_front\(self\.pending_events\)\)$")
        if some:
            got = lib.count_range(p, [t for _, t in some], p.return_blocks(), lib.bbs([x for x, _ in readies]))
            ctx.ob("queue", "every popped event is delivered", got == (1, 1), s.loc(), "Ready results on the Some edge: %s" % (got,))
        for ps, _ in pend:
            ctx.ob("queue", "Pending only when no event is queued", bool(none) and p.must_pass_edges(ps.bb, none), ps.loc(), "Poll::Pending dominated by pop_front == None")
    for s, r in readies:
        ctx.ob("queue", "the delivered event is the popped one", r == "std::task::Poll::Ready{0: std::collections::VecDeque::pop_front(self.pending_events)@Some.0}", s.loc(), r[:140])
    ws = p.field_write_sites("waker")
    for ps, _ in pend:
        ctx.ob("queue", "waker stored before Pending", bool(ws) and ps.bb not in p.reachable([0], blocked_nodes=lib.bbs(ws)), ps.loc(), "self.waker = Some(..) on every path to Pending")
    qm = set()
    for b in prog.bodies(PS):
        for s in lib.field_mut_calls(b, "pending_events"):
            qm.add((b.npath.split("::")[-1], strip_generics(b.call_name(s.term)).split("::")[-1]))
    ctx.ob("queue", "pending_events mutators", qm == {("push_event_and_wake", "push_back"), ("poll", "pop_front")}, msg=str(sorted(qm)))
    # behaviour wrapper
    bo = ctx.body(PS, r"<behaviour::Behaviour as libp2p_swarm::NetworkBehaviour>::on_swarm_event$")
    fw = [s for s in bo.call_sites(r"store::Store::on_swarm_event$") if [render(a) for a in bo.site_expr(s)[2]] == ["self.store", "event"]]
    got = lib.count_range(bo, [0], bo.return_blocks(), lib.bbs(fw))
    ctx.ob("wrapper", "Behaviour forwards every swarm event to the store once", got == (1, 1), "%s:%d" % (bo.file, bo.line), "Store::on_swarm_event(self.store, event): %s" % (got,))
    bp = ctx.body(PS, r"<behaviour::Behaviour as libp2p_swarm::NetworkBehaviour>::poll$")
    rr = [render(e) for _, _, e in ret_consts(bp)]
    ctx.ob("wrapper", "Behaviour::poll = store.poll(cx).map(ToSwarm::GenerateEvent)", rr == ["std::task::Poll::map(libp2p_peer_store::store::Store::poll(self.store, cx), fn:libp2p_swarm::ToSwarm::GenerateEvent)"],
           "%s:%d" % (bp.file, bp.line), str(rr)[:200])
