"""C33 gossipsub caches keep exactly their documented windows — guards (K1), path counting (K2), order (K3), writers / pairing (K4), origin (K5)."""
import re

from .. import lib, mir
from ..mir import render

EXPLANATION = ("DuplicateCache/TimeCache: a key is inserted (map + expiry list, both with the same `now + ttl`) only on the Vacant edge, an "
               "Occupied lookup mutates nothing (no refresh: no write to `expires` exists outside VacantEntry::insert), insert() reports "
               "true exactly on the Vacant edge; expiry runs before every lookup with the same `now`; remove_expired_keys removes a map "
               "entry only for the popped list element, only when that element is not `expires > now` and the map entry's own expiry is "
               "`<= now`, re-queues a not-yet-expired element at the front and stops; the list is only popped at the front and appended at "
               "the back. MessageCache: built with (history_gossip, history_length) in that order; put inserts only on Vacant, records the id "
               "in history[0] exactly once, ignores duplicates; get_with_iwant_counts returns validated messages only and adds exactly one "
               "to the (message id, peer) counter it returns; get_gossip_message_ids reads history[..gossip] and keeps entries of the topic "
               "whose message is present and validated; shift pops the last slot once, removes msgs and iwant_counts for every popped "
               "entry and inserts one empty slot at index 0; every removal from msgs (shift, remove) is paired with the removal of the id's "
               "iwant counters; heartbeat shifts exactly once.")
ASSUMPTIONS = ["window lengths against a real clock (Instant arithmetic, monotonicity of Instant::now) are not decided",
               "DuplicateCache::contains does not expire lazily-kept entries (expiry happens on the next insert): not part of the claim",
               "std HashMap / VecDeque / Vec semantics"]
G = "libp2p_gossipsub"
CONFIGS = [{"name": "gossipsub-features", "packages": ["libp2p-gossipsub"], "features": "metrics,partial-messages"}]
TC = r"^libp2p_gossipsub::time_cache::"
MC = r"^libp2p_gossipsub::mcache::MessageCache::"
SELFTEST = [
    {"mutation": "seeded/C33: MessageCache::remove no longer removes iwant_counts", "caught_by": "mcache-remove/every msgs removal also drops the id's iwant counters (MessageCache::remove)"},
    {"mutation": "TimeCache::entry Occupied arm: `entry.get_mut().expires = now` (refresh on re-insertion)", "caught_by": "dup-who/expiry of a stored key is never rewritten"},
    {"mutation": "remove_expired_keys: `element.expires > now` -> `element.expires < now`", "caught_by": "dup-expire/removal only for an element that is not `expires > now`"},
    {"mutation": "remove_expired_keys: push_front(element) -> push_back(element)", "caught_by": "dup-expire/list is only popped at the front / re-queued at the front"},
    {"mutation": "TimeCache::entry: remove_expired_keys call deleted", "caught_by": "dup-entry/floor:remove_expired_keys call"},
    {"mutation": "MessageCache::new(config.history_length(), config.history_gossip()) swapped in Behaviour::new", "caught_by": "mcache-new/Behaviour builds the cache with (history_gossip, history_length)"},
    {"mutation": "get_gossip_message_ids: `history[..self.gossip]` -> `history[..]`", "caught_by": "mcache-gossip/gossip window is history[..gossip]"},
    {"mutation": "get_gossip_message_ids: `if let Some(true)` -> `if let Some(_)`", "caught_by": "mcache-gossip/only validated messages of the topic are offered"},
    {"mutation": "get_with_iwant_counts: `*count += 1` -> `*count += 2`", "caught_by": "mcache-iwant/counter is incremented by exactly one per request"},
    {"mutation": "shift: `self.history.insert(0, Vec::new())` -> `self.history.push(Vec::new())`", "caught_by": "mcache-shift/history is only tested, popped and front-inserted"},
    {"mutation": "shift: `self.iwant_counts.remove(&entry.mid)` deleted", "caught_by": "mcache-remove/every msgs removal also drops the id's iwant counters (MessageCache::shift)"},
    {"mutation": "put: `self.history[0].push(cache_entry)` -> `self.history[1].push(..)`", "caught_by": "mcache-put/new id is recorded in history[0]"},
]


def ret_exprs(b):
    out = []
    for x in b.defs[0]:
        s = mir.Site(b, x[1], x[2])
        out.append((s, render(b.call_expr(x[3], x[1])) if x[0] == "call" else render(b.rvalue_expr(x[3]))))
    return out


def calls_on(b, recv_pat):
    """(site, callee) of calls whose first argument renders to something matching recv_pat."""
    rx = re.compile(recv_pat)
    out = []
    for s in b.call_sites():
        e = b.site_expr(s)
        if e[2] and rx.search(render(e[2][0])):
            out.append((s, mir.strip_generics(b.call_name(s.term))))
    return out


def check(ctx):
    prog = ctx.prog
    # =================================================================== DuplicateCache / TimeCache
    di = ctx.body(G, TC + r"DuplicateCache::insert$")
    diw = "%s:%d" % (di.file, di.line)
    ent = di.call_sites(r"time_cache::TimeCache::entry$")
    ins = di.call_sites(r"time_cache::VacantEntry::insert$")
    ctx.floor("dup-insert", "TimeCache::entry call", ent, 1, exact=True)
    ctx.floor("dup-insert", "VacantEntry::insert call", ins, 1, exact=True)
    if ent and ins:
        vac = lib.switch_edges_on_site(di, ent[0], {"Vacant"}, r"^discr\(")
        ctx.ob("dup-insert", "floor:Vacant edge", len(vac) == 1, nontrivial=False, msg=str(sorted(vac)))
        ctx.ob("dup-insert", "a key is stored only when it is absent (Vacant)", bool(vac) and di.must_pass_edges(ins[0].bb, vac), ins[0].loc(), "VacantEntry::insert dominated by the Vacant edge of self.0.entry(key)")
        a = render(di.site_expr(ins[0])[2][0])
        ctx.ob("dup-insert", "the vacant entry filled is the one looked up", a.endswith("TimeCache::entry(self.0, key)@Vacant.0"), ins[0].loc(), a[-80:])
        for s, r in ret_exprs(di):
            if r == "1":
                ok = bool(vac) and di.must_pass_edges(s.bb, vac) and di.must_pass_nodes([0], [s.bb], lib.bbs(ins))
                ctx.ob("dup-insert", "`true` (first sighting) only after storing a vacant key", ok, s.loc(), "true dominated by Vacant edge + insert")
            elif r == "0":
                ok = all(s.bb not in di.reachable([t]) for _, t in vac)
                ctx.ob("dup-insert", "`false` (seen before) never for a vacant key", ok, s.loc(), "false not reachable from the Vacant edge")
            else:
                ctx.ob("dup-insert", "result is a constant verdict", False, s.loc(), r[:80])
        names = sorted({n for _, n in calls_on(di, r".")})
        ctx.ob("dup-insert", "re-insertion does not touch the cache (no refresh)", names == ["libp2p_gossipsub::time_cache::TimeCache::entry", "libp2p_gossipsub::time_cache::VacantEntry::insert"], diw, str(names))
    # TimeCache::entry
    te = ctx.body(G, TC + r"TimeCache::entry$")
    tew = "%s:%d" % (te.file, te.line)
    rex = te.call_sites(r"time_cache::TimeCache::remove_expired_keys$")
    look = [s for s, n in calls_on(te, r"^self\.map$") if n.endswith("HashMap::entry")]
    nowc = te.call_sites(r"Instant::now$")
    ctx.floor("dup-entry", "remove_expired_keys call", rex, 1, exact=True)
    ctx.floor("dup-entry", "map.entry(key)", look, 1, exact=True)
    ctx.floor("dup-entry", "Instant::now()", nowc, 1, exact=True)
    if rex and look:
        lib.precedes(ctx, "dup-entry", "expiry runs before the lookup", te, lib.bbs(rex), lib.bbs(look), "remove_expired_keys precedes map.entry", rex[0].loc())
        a = te.site_expr(rex[0])[2]
        ctx.ob("dup-entry", "expiry uses the current time", len(a) == 2 and render(a[0]) == "self" and a[1][0] == "call" and nowc and a[1][3] == nowc[0].bb, rex[0].loc(), render(a[1])[:80] if len(a) > 1 else "")
        ctx.ob("dup-entry", "looked-up key is the argument", render(te.site_expr(look[0])[2][1]) == "key", look[0].loc(), render(te.site_expr(look[0])[2][1]))
        occ = lib.switch_edges_on_site(te, look[0], {"Occupied"}, r"^discr\(")
        ctx.ob("dup-entry", "floor:Occupied edge", len(occ) == 1, nontrivial=False, msg=str(sorted(occ)))
        for _, t in occ:
            r = te.reachable([t])
            cs = [mir.strip_generics(te.call_name(s.term)) for s in te.call_sites() if s.bb in r]
            ctx.ob("dup-entry", "an Occupied lookup mutates nothing (expiry is not refreshed)", cs == [], tew, "calls on the Occupied arm: %s" % cs)
    vag = te.agg_sites(r"time_cache::VacantEntry$")
    ctx.floor("dup-entry", "VacantEntry construction", vag, 1, exact=True)
    for s in vag:
        e = te.site_expr(s)
        f = dict(e[4])
        exp = f.get("expiration")
        ok = exp is not None and exp[0] == "call" and re.search(r"Option::unwrap_or_else$", mir.strip_generics(exp[1])) is not None
        inner = exp[2][0] if ok else None
        ok = ok and inner[0] == "call" and re.search(r"Instant::checked_add$", mir.strip_generics(inner[1])) is not None and render(inner[2][1]) == "self.ttl" and \
            inner[2][0][0] == "call" and nowc and inner[2][0][3] == nowc[0].bb
        ctx.ob("dup-entry", "expiry of a new key = now + ttl (same `now` as the expiry sweep)", bool(ok), s.loc(), render(exp)[:120] if exp else "")
        ctx.ob("dup-entry", "new key is appended to this cache's expiry list", render(f.get("list", ("unknown", "?"))) == "self.list" and render(f.get("entry", ("unknown", "?"))).endswith("@Vacant.0"), s.loc(),
               "list=%s" % render(f.get("list", ("unknown", "?"))))
    # VacantEntry::insert
    vi = ctx.body(G, TC + r"VacantEntry::insert$")
    viw = "%s:%d" % (vi.file, vi.line)
    pb = [s for s, n in calls_on(vi, r"^self\.list$")]
    ctx.floor("dup-store", "list mutation in VacantEntry::insert", pb, 1, exact=True)
    for s in pb:
        n = mir.strip_generics(vi.call_name(s.term))
        ctx.ob("dup-store", "new key goes to the back of the expiry list", n.endswith("VecDeque::push_back"), s.loc(), n)
        r = render(vi.site_expr(s)[2][1])
        ctx.ob("dup-store", "list element = (this key, this expiry)", re.match(r"^libp2p_gossipsub::time_cache::ExpiringElement::ExpiringElement\{element: std::clone::Clone::clone\(std::collections::hash_map::VacantEntry::key\(self\.entry\)\), expires: self\.expiration\}$", r) is not None, s.loc(), r[:200])
        lib.expect_count(ctx, "dup-store", "list append exactly once per stored key", vi, [0], vi.return_blocks(), [s.bb], (1, 1), "push_back per insert", s.loc())
    mi = vi.call_sites(r"hash_map::VacantEntry::insert$")
    ctx.floor("dup-store", "map insert in VacantEntry::insert", mi, 1, exact=True)
    for s in mi:
        r = render(vi.site_expr(s)[2][1])
        ctx.ob("dup-store", "map value carries the same expiry as the list element", re.match(r"^libp2p_gossipsub::time_cache::ExpiringElement::ExpiringElement\{element: value, expires: self\.expiration\}$", r) is not None, s.loc(), r[:160])
        lib.expect_count(ctx, "dup-store", "map insert exactly once per stored key", vi, [0], vi.return_blocks(), [s.bb], (1, 1), "map insert per insert", s.loc())
    # remove_expired_keys
    rk = ctx.body(G, TC + r"TimeCache::remove_expired_keys$")
    rkw = "%s:%d" % (rk.file, rk.line)
    POP = r"std::collections::VecDeque::pop_front\(self\.list\)@Some\.0"
    rem = rk.call_sites(r"hash_map::OccupiedEntry::remove(_entry)?$")
    ctx.floor("dup-expire", "map removal", rem, 1, exact=True)
    pops = rk.call_sites(r"VecDeque::pop_front$")
    ctx.floor("dup-expire", "pop_front", pops, 1, exact=True)
    fresh_true = lambda c, r, l: ((l == "true" and re.match(r"^std::cmp::PartialOrd::g[te]\(%s\.expires, now\)$" % POP, r) is not None) or
                                  (l == "false" and re.match(r"^std::cmp::PartialOrd::l[te]\(%s\.expires, now\)$" % POP, r) is not None) or
                                  (l == "true" and re.match(r"^std::cmp::PartialOrd::l[te]\(now, %s\.expires\)$" % POP, r) is not None))
    stale = lambda c, r, l: ((l == "false" and re.match(r"^std::cmp::PartialOrd::g[te]\(%s\.expires, now\)$" % POP, r) is not None) or
                             (l == "true" and re.match(r"^std::cmp::PartialOrd::l[te]\(%s\.expires, now\)$" % POP, r) is not None) or
                             (l == "false" and re.match(r"^std::cmp::PartialOrd::l[te]\(now, %s\.expires\)$" % POP, r) is not None))
    ENT = r"std::collections::HashMap::entry\(self\.map, std::clone::Clone::clone\(%s\.element\)\)" % POP
    for s in rem:
        ctx.guarded("dup-expire", "removal only for an element that is not `expires > now`", s, stale, "popped element is due (not expires > now)")
        ctx.guarded("dup-expire", "removal only of the popped element's own key", s, lambda c, r, l: l == "Occupied" and re.match(r"^discr\(%s\)$" % ENT, r) is not None, "map.entry(element.key) is Occupied")
        ctx.guarded("dup-expire", "removal only if the stored entry itself is due", s,
                    lambda c, r, l: (l == "true" and re.match(r"^std::cmp::PartialOrd::l[te]\(std::collections::hash_map::OccupiedEntry::get\(%s@Occupied\.0\)\.expires, now\)$" % ENT, r) is not None) or
                                    (l == "false" and re.match(r"^std::cmp::PartialOrd::g[te]\(std::collections::hash_map::OccupiedEntry::get\(%s@Occupied\.0\)\.expires, now\)$" % ENT, r) is not None),
                    "entry.get().expires <= now")
        a = render(rk.site_expr(s)[2][0])
        ctx.ob("dup-expire", "the entry removed is the entry tested", re.match(r"^%s@Occupied\.0$" % ENT, a) is not None, s.loc(), a[-120:])
    fe = rk.guard_edges(fresh_true)
    ctx.ob("dup-expire", "floor:not-yet-expired edge", len(fe) == 1, nontrivial=False, msg=str(sorted(fe)))
    lm = calls_on(rk, r"^self\.list$")
    ctx.ob("dup-expire", "list is only popped at the front / re-queued at the front", sorted(n.split("::")[-1] for _, n in lm) == ["pop_front", "push_front"], rkw, str(sorted(n for _, n in lm)))
    pf = [s for s, n in lm if n.endswith("push_front")]
    for _, t in fe:
        got = lib.count_range(rk, [t], rk.return_blocks() + lib.bbs(pops), lib.bbs(pf))
        ctx.ob("dup-expire", "a not-yet-expired element is put back exactly once", got == (1, 1), rkw, "push_front on the not-yet-expired edge: %s" % (got,))
        r = rk.reachable([t])
        ctx.ob("dup-expire", "the sweep stops at the first not-yet-expired element", not (set(lib.bbs(pops)) & r) and not (set(lib.bbs(rem)) & r), rkw, "no further pop / removal after re-queueing")
    for s in pf:
        a = render(rk.site_expr(s)[2][1])
        ctx.ob("dup-expire", "the element put back is the element popped", re.match("^%s$" % POP, a) is not None, s.loc(), a[-80:])
        ctx.guarded("dup-expire", "put back only when not yet expired", s, fresh_true, "expires > now")
    # readers
    for fn, want in ((r"TimeCache::contains_key$", "std::collections::HashMap::contains_key(self.map, key)"), (r"DuplicateCache::contains$", "libp2p_gossipsub::time_cache::TimeCache::contains_key(self.0, key)")):
        b = ctx.body(G, TC + fn)
        r0 = [r for _, r in ret_exprs(b)]
        ctx.ob("dup-read", "%s reads the map" % fn.rstrip("$"), r0 == [want], "%s:%d" % (b.file, b.line), str(r0))
    # constructors
    b = ctx.body(G, TC + r"TimeCache::new$")
    ag = b.agg_sites(r"time_cache::TimeCache$")
    ctx.ob("dup-new", "TimeCache::new stores ttl", len(ag) == 1 and dict((k, render(x)) for k, x in b.site_expr(ag[0])[4]).get("ttl") == "ttl", "%s:%d" % (b.file, b.line), "")
    b = ctx.body(G, TC + r"DuplicateCache::new$")
    r0 = [r for _, r in ret_exprs(b)]
    ctx.ob("dup-new", "DuplicateCache::new passes ttl", r0 == ["libp2p_gossipsub::time_cache::DuplicateCache::DuplicateCache{0: libp2p_gossipsub::time_cache::TimeCache::new(ttl)}"], "%s:%d" % (b.file, b.line), str(r0)[:200])
    # who writes expiry / builds elements
    tcb = [b for b in prog.bodies(G) if re.search(TC, b.npath)]
    w = [(b.npath, s) for b in tcb for s in b.field_write_sites("expires") + b.field_write_sites("expiration")]
    ctx.ob("dup-who", "expiry of a stored key is never rewritten", not w, w[0][1].loc() if w else "", "assignments to .expires/.expiration: %s" % [x for x, _ in w])
    aggs = [(b.npath, s) for b in prog.bodies(G) for s in b.agg_sites(r"time_cache::ExpiringElement$")]
    ctx.ob("dup-who", "expiring elements are only created when a vacant key is stored", len(aggs) == 2 and {x for x, _ in aggs} == {vi.npath}, viw, str(sorted({x for x, _ in aggs})))
    mm = sorted({n.split("::")[-1] for b in tcb for _, n in calls_on(b, r"(^|\.)map$") if "HashMap" in n})
    ctx.ob("dup-who", "the map is only accessed through entry / contains_key", set(mm) <= {"entry", "contains_key", "default", "clear"} and "entry" in mm, msg=str(mm))
    im = ctx.body(G, TC + r"OccupiedEntry::into_mut$")
    r0 = [r for _, r in ret_exprs(im)]
    ctx.ob("dup-who", "OccupiedEntry exposes only the value, not the expiry", r0 == ["std::collections::hash_map::OccupiedEntry::into_mut(self.entry).element"], "%s:%d" % (im.file, im.line), str(r0))
    # =================================================================== MessageCache
    nb = ctx.body(G, MC + r"new$")
    nn = [nb.names.get(i) for i in range(1, nb.argc + 1)]
    ctx.ob("mcache-new", "floor:MessageCache::new(gossip, history_capacity)", nn == ["gossip", "history_capacity"], "%s:%d" % (nb.file, nb.line), str(nn), nontrivial=False)
    ag = nb.agg_sites(r"mcache::MessageCache$")
    ctx.floor("mcache-new", "MessageCache construction", ag, 1, exact=True)
    for s in ag:
        f = dict((k, render(x)) for k, x in nb.site_expr(s)[4])
        ctx.ob("mcache-new", "history has history_capacity empty slots, gossip window stored", f.get("gossip") == "gossip" and f.get("history") == "std::vec::from_elem(std::vec::Vec::new(), history_capacity)", s.loc(), "gossip=%s history=%s" % (f.get("gossip"), f.get("history")))
    callers = prog.callers(G, MC + r"new$")
    ctx.floor("mcache-new", "MessageCache::new callers", callers, 1)
    for s in callers:
        a = [render(x) for x in s.body.site_expr(s)[2]]
        ctx.ob("mcache-new", "Behaviour builds the cache with (history_gossip, history_length)", a == ["libp2p_gossipsub::config::Config::history_gossip(config)", "libp2p_gossipsub::config::Config::history_length(config)"], s.loc(), str(a))
    for g in ("history_gossip", "history_length"):
        b = ctx.body(G, r"^libp2p_gossipsub::config::Config::%s$" % g)
        r0 = [r for _, r in ret_exprs(b)]
        ctx.ob("mcache-new", "Config::%s returns its field" % g, r0 == ["self.%s" % g], "%s:%d" % (b.file, b.line), str(r0))
    dcc = prog.callers(G, TC + r"DuplicateCache::new$")
    for s in dcc:
        a = [render(x) for x in s.body.site_expr(s)[2]]
        ctx.ob("dup-new", "duplicate cache ttl = config.duplicate_cache_time()", a == ["libp2p_gossipsub::config::Config::duplicate_cache_time(config)"], s.loc(), str(a))
    ctx.floor("dup-new", "DuplicateCache::new callers", dcc, 1)
    # ---- put
    p = ctx.body(G, MC + r"put$")
    pw = "%s:%d" % (p.file, p.line)
    pe = [s for s, n in calls_on(p, r"^self\.msgs$") if n.endswith("HashMap::entry")]
    pins = p.call_sites(r"hash_map::VacantEntry::insert$")
    hp = [s for s in p.call_sites(r"Vec::push$") if "self.history" in render(p.site_expr(s)[2][0])]
    ctx.floor("mcache-put", "msgs.entry", pe, 1, exact=True)
    ctx.floor("mcache-put", "msgs insert", pins, 1, exact=True)
    ctx.floor("mcache-put", "history push", hp, 1, exact=True)
    if pe and pins and hp:
        k = render(p.site_expr(pe[0])[2][1])
        ctx.ob("mcache-put", "looked up by the message id", k == "libp2p_gossipsub::<types::MessageId as std::clone::Clone>::clone(message_id)", pe[0].loc(), k)
        vac = lib.switch_edges_on_site(p, pe[0], {"Vacant"}, r"^discr\(")
        occ = lib.switch_edges_on_site(p, pe[0], {"Occupied"}, r"^discr\(")
        ctx.ob("mcache-put", "floor:entry edges", len(vac) == 1 and len(occ) == 1, nontrivial=False)
        for s in pins + hp:
            ctx.ob("mcache-put", "a message is stored / recorded only for a new id", bool(vac) and p.must_pass_edges(s.bb, vac), s.loc(), "dominated by the Vacant edge")
        for _, t in vac:
            for nm, ss in (("msgs insert", pins), ("history[0] push", hp)):
                got = lib.count_range(p, [t], p.return_blocks(), lib.bbs(ss))
                ctx.ob("mcache-put", "new id: %s exactly once" % nm, got == (1, 1), pw, str(got))
        for _, t in occ:
            r = p.reachable([t])
            ctx.ob("mcache-put", "duplicate put changes nothing", not (set(lib.bbs(pins + hp)) & r), pw, "no insert / push on the Occupied arm")
            vals = {rr for s, rr in ret_exprs(p) if s.bb in r}
            ctx.ob("mcache-put", "duplicate put reports false", vals == {"0"}, pw, str(sorted(vals)))
        r = render(p.site_expr(hp[0])[2][0])
        ctx.ob("mcache-put", "new id is recorded in history[0]", r == "<std::vec::Vec as std::ops::IndexMut>::index_mut(self.history, 0)", hp[0].loc(), r)
        r = render(p.site_expr(hp[0])[2][1])
        ctx.ob("mcache-put", "history entry = (this id, the message's topic)", r == "libp2p_gossipsub::mcache::CacheEntry::CacheEntry{mid: libp2p_gossipsub::<types::MessageId as std::clone::Clone>::clone(message_id), topic: libp2p_gossipsub::<topic::TopicHash as std::clone::Clone>::clone(msg.topic)}", hp[0].loc(), r[:220])
        r = render(p.site_expr(pins[0])[2][1])
        ctx.ob("mcache-put", "stored value = (msg, no known peers)", r == "tuple{0: msg, 1: <std::collections::HashSet as std::default::Default>::default()}", pins[0].loc(), r[:120])
    # ---- get_with_iwant_counts
    gw = ctx.body(G, MC + r"get_with_iwant_counts$")
    r0 = ret_exprs(gw)
    ok = len(r0) == 1 and re.match(r"^std::option::Option::and_then\(std::collections::HashMap::get\(self\.msgs, message_id\), closure:.*\[self\.iwant_counts, message_id, peer\]\)$", r0[0][1]) is not None
    ctx.ob("mcache-iwant", "looks the id up in msgs; counters come from iwant_counts", ok, "%s:%d" % (gw.file, gw.line), r0[0][1][:200] if r0 else "")
    gc = ctx.body(G, MC + r"get_with_iwant_counts::\{closure#0\}$")
    gcw = "%s:%d" % (gc.file, gc.line)
    somes = [s for s, r in ret_exprs(gc) if r.startswith("std::option::Option::Some")]
    ctx.floor("mcache-iwant", "Some result", somes, 1, exact=True)
    VAL = lambda c, r, l: (l == "true" and re.match(r"^arg2\.0\.validated$", r) is not None) or (l == "false" and re.match(r"^Not\(arg2\.0\.validated\)$", r) is not None)
    for s in somes:
        ctx.guarded("mcache-iwant", "a message is returned for IWANT only if validated", s, VAL, "message.validated")
        r = render(gc.site_expr(s))
        ctx.ob("mcache-iwant", "returns the message and the peer's counter", r == "std::option::Option::Some{0: tuple{0: arg2.0, 1: count}}", s.loc(), r[:120])
    cl = [k for k, n in gc.names.items() if n == "count"]
    cinit = [render(gc.init_expr(k)) for k in cl]
    want = ("std::collections::hash_map::Entry::or_default(std::collections::HashMap::entry(std::collections::hash_map::Entry::or_default(std::collections::HashMap::entry(^*iwant_counts, "
            "libp2p_gossipsub::<types::MessageId as std::clone::Clone>::clone(^*message_id))), ^*peer))")
    ctx.ob("mcache-iwant", "counter is keyed by (message id, peer)", cinit == [want], gcw, str(cinit)[:300])
    incs = [x for l in cl for x in gc.defs.get((l, "partial"), []) if x[0] == "stmt"]
    ctx.floor("mcache-iwant", "counter update", incs, 1, exact=True)
    for x in incs:
        r = render(gc.rvalue_expr(x[3]))
        site = mir.Site(gc, x[1], x[2])
        ctx.ob("mcache-iwant", "counter is incremented by exactly one per request", r == "AddWithOverflow(count, 1).0", site.loc(), r)
        for s in somes:
            got = lib.count_range(gc, [0], [s.bb], [x[1]])
            ctx.ob("mcache-iwant", "every answered request is counted once, before the count is reported", got == (1, 1), site.loc(), "increments on the path to Some: %s" % (got,))
    nv = gc.guard_edges(lambda c, r, l: (l == "false" and r == "arg2.0.validated") or (l == "true" and r == "Not(arg2.0.validated)"))
    for _, t in nv:
        r = gc.reachable([t])
        ctx.ob("mcache-iwant", "an unvalidated message is neither returned nor counted", not [s for s in gc.call_sites() if s.bb in r] and {rr for s, rr in ret_exprs(gc) if s.bb in r} == {"std::option::Option::None{}"}, gcw, "None without touching the counters")
    ctx.ob("mcache-iwant", "floor:unvalidated edge", len(nv) == 1, nontrivial=False)
    # ---- validate
    vc = ctx.body(G, MC + r"validate::\{closure#0\}$")
    ws = vc.field_write_sites("validated")
    ctx.ob("mcache-validate", "validate marks the message validated", len(ws) == 1 and render(vc.site_expr(ws[0])) == "1", "%s:%d" % (vc.file, vc.line), str([render(vc.site_expr(s)) for s in ws]))
    vb = ctx.body(G, MC + r"validate$")
    r0 = [r for _, r in ret_exprs(vb)]
    ctx.ob("mcache-validate", "validate addresses the message by id", len(r0) == 1 and r0[0].startswith("std::option::Option::map(std::collections::HashMap::get_mut(self.msgs, message_id), closure:"), "%s:%d" % (vb.file, vb.line), str(r0)[:160])
    # ---- get_gossip_message_ids
    gg = ctx.body(G, MC + r"get_gossip_message_ids$")
    r0 = [r for _, r in ret_exprs(gg)]
    ok = len(r0) == 1 and re.match(r"^<std::slice::Iter as std::iter::Iterator>::fold\(core::slice::iter\(<std::vec::Vec as std::ops::Index>::index\(self\.history, std::ops::RangeTo::RangeTo\{end: self\.gossip\}\)\), std::vec::Vec::new\(\), closure:.*\[topic, self\]\)$", r0[0]) is not None
    ctx.ob("mcache-gossip", "gossip window is history[..gossip]", ok, "%s:%d" % (gg.file, gg.line), str(r0)[:260])
    fo = ctx.body(G, MC + r"get_gossip_message_ids::\{closure#0\}$")
    fe_ = [k for k, n in fo.names.items() if n == "found_entries"]
    init = [render(fo.init_expr(k)) for k in fe_]
    ok = len(init) == 1 and re.match(r"^std::iter::Iterator::collect\(std::iter::Iterator::filter_map\(core::slice::iter\((<std::vec::Vec as std::ops::Deref>::deref\()?entries\)?\), closure:.*\[\^topic, \^\*self\]\)\)$", init[0]) is not None
    ctx.ob("mcache-gossip", "each slot's entries are filtered", ok, "%s:%d" % (fo.file, fo.line), str(init)[:240])
    ap = fo.call_sites(r"Vec::append$|Vec as std::iter::Extend>::extend$")
    ok = len(ap) == 1 and render(fo.site_expr(ap[0])[2][0]) == "current_entries" and render(fo.site_expr(ap[0])[2][1]) == "found_entries" and [r for _, r in ret_exprs(fo)] == ["current_entries"]
    ctx.ob("mcache-gossip", "filtered ids of every slot are accumulated", ok, "%s:%d" % (fo.file, fo.line), "append(current_entries, found_entries); return current_entries")
    fm = ctx.body(G, MC + r"get_gossip_message_ids::\{closure#0\}::\{closure#0\}$")
    fmw = "%s:%d" % (fm.file, fm.line)
    somes = [s for s, r in ret_exprs(fm) if r.startswith("std::option::Option::Some")]
    ctx.floor("mcache-gossip", "Some(id) result", somes, 1, exact=True)
    MAPV = r"std::option::Option::map\(std::collections::HashMap::get\(\^\*self\.msgs, entry\.mid\), closure:[^\[]*\[\]\)"
    for s in somes:
        ctx.guarded("mcache-gossip", "only ids of the requested topic are offered", s, lambda c, r, l: l == "true" and re.match(r"^std::cmp::(impls::|PartialEq::)?eq\(entry\.topic, \^topic\)$", r) is not None, "entry.topic == topic")
        ctx.guarded("mcache-gossip", "only messages still in the cache are offered", s, lambda c, r, l: l == "Some" and re.match(r"^discr\(%s\)$" % MAPV, r) is not None, "msgs.get(mid) is Some")
        ctx.guarded("mcache-gossip", "only validated messages of the topic are offered", s, lambda c, r, l: l == "true" and re.match(r"^%s@Some\.0$" % MAPV, r) is not None, "msgs.get(mid).validated == true")
        r = render(fm.site_expr(s))
        ctx.ob("mcache-gossip", "the offered id is the entry's id", r == "std::option::Option::Some{0: libp2p_gossipsub::<types::MessageId as std::clone::Clone>::clone(entry.mid)}", s.loc(), r[:140])
    vcl = ctx.body(G, MC + r"get_gossip_message_ids::\{closure#0\}::\{closure#0\}::\{closure#0\}$")
    r0 = [r for _, r in ret_exprs(vcl)]
    ctx.ob("mcache-gossip", "the flag tested is the message's `validated`", r0 == ["arg2.0.validated"], "%s:%d" % (vcl.file, vcl.line), str(r0))
    # ---- shift
    sh = ctx.body(G, MC + r"shift$")
    shw = "%s:%d" % (sh.file, sh.line)
    hist = calls_on(sh, r"^self\.history$")
    kinds = sorted(n.split("::")[-1] for _, n in hist)
    ctx.ob("mcache-shift", "history is only tested, popped and front-inserted", kinds == ["insert", "is_empty", "pop"], shw, str(kinds))
    pop = [s for s, n in hist if n.endswith("Vec::pop")]
    insf = [s for s, n in hist if n.endswith("Vec::insert")]
    emp = lib.switch_edges_on(sh, r"^std::vec::Vec::is_empty\(self\.history\)$", {"false"})
    rets = sh.return_blocks()
    for _, t in emp:
        for nm, ss in (("the last slot is popped", pop), ("one empty slot is inserted", insf)):
            got = lib.count_range(sh, [t], rets, lib.bbs(ss))
            ctx.ob("mcache-shift", "%s exactly once per shift" % nm, got == (1, 1), shw, str(got))
    ctx.ob("mcache-shift", "floor:non-empty edge", len(emp) == 1, nontrivial=False)
    for s in insf:
        a = [render(x) for x in sh.site_expr(s)[2]]
        ctx.ob("mcache-shift", "one empty slot is inserted at the front", a[1:] == ["0", "std::vec::Vec::new()"], s.loc(), str(a[1:]))
        if pop:
            lib.precedes(ctx, "mcache-shift", "the old slot is dropped before the new one is added", sh, lib.bbs(pop), [s.bb], "pop precedes insert(0, ..)", s.loc())
    nxt = sh.call_sites(r"IntoIter as std::iter::Iterator>::next$")
    ctx.floor("mcache-shift", "loop over the popped slot", nxt, 1, exact=True)
    its = [render(sh.init_expr(k)) for k, n in sh.names.items() if n == "iter"]
    ctx.ob("mcache-shift", "the entries expired are those of the popped slot", any(re.search(r"into_iter\(std::option::Option::(expect|unwrap[a-z_]*)\(std::vec::Vec::pop\(self\.history\)", x) for x in its), shw, str(its)[:200])
    E = r"<std::vec::IntoIter as std::iter::Iterator>::next\(iter\)@Some\.0\.mid"
    mrem = [s for s, n in calls_on(sh, r"^self\.msgs$") if n.endswith("HashMap::remove")]
    irem = [s for s, n in calls_on(sh, r"^self\.iwant_counts$") if n.endswith("HashMap::remove")]
    if nxt:
        some = [t for _, t in lib.switch_edges_on_site(sh, nxt[0], {"Some"}, r"^discr\(<std::vec::IntoIter as std::iter::Iterator>::next\(iter\)\)$")]
        for nm, ss in (("message", mrem), ("iwant counters", irem)):
            got = lib.count_range(sh, some, [nxt[0].bb], lib.bbs(ss)) if some else None
            ctx.ob("mcache-shift", "every popped entry's %s is removed" % nm, got == (1, 1), shw, "removals per popped entry: %s" % (got,))
            for s in ss:
                k = render(sh.site_expr(s)[2][1])
                ctx.ob("mcache-shift", "removal is keyed by the popped entry's id", re.match("^%s$" % E, k) is not None, s.loc(), k[-60:])
    # ---- removal pairing (K4): msgs.remove(k) is always accompanied by iwant_counts.remove(k)
    n_pairs = 0
    for b in prog.bodies(G):
        if not re.search(r"^libp2p_gossipsub::mcache::", b.npath):
            continue
        ms = [s for s, n in calls_on(b, r"(^|\.)msgs$") if n.endswith("HashMap::remove")]
        iws = [s for s, n in calls_on(b, r"(^|\.)iwant_counts$") if n.endswith("HashMap::remove")]
        for m in ms:
            n_pairs += 1
            k = render(b.site_expr(m)[2][1])
            cands = [w for w in iws if render(b.site_expr(w)[2][1]) == k]
            ok = False
            for w_ in cands:
                if b.dominates(w_.bb, m.bb) or b.must_pass_nodes(b.succ[m.bb], b.return_blocks() + [m.bb], [w_.bb]):
                    ok = True
            fn = b.npath.split("::")[-2] + "::" + b.npath.split("::")[-1]
            ctx.ob("mcache-remove", "every msgs removal also drops the id's iwant counters (%s)" % fn, ok, m.loc(),
                   "iwant_counts.remove(%s) accompanies msgs.remove on every path" % k[-40:] if ok else
                   "msgs.remove(%s) without iwant_counts.remove of the same id: a later put of the same id continues counting from the stale value" % k[-40:])
    ctx.ob("mcache-remove", "floor:msgs removal sites", n_pairs >= 2, nontrivial=False, msg="%d" % n_pairs)
    rm = ctx.body(G, MC + r"remove$")
    r0 = [r for _, r in ret_exprs(rm)]
    ctx.ob("mcache-remove", "remove returns the removed message", r0 == ["std::collections::HashMap::remove(self.msgs, message_id)"], "%s:%d" % (rm.file, rm.line), str(r0))
    # ---- heartbeat shifts once
    hb = ctx.body(G, r"^libp2p_gossipsub::behaviour::Behaviour::heartbeat$")
    sc = hb.call_sites(MC[1:] + r"shift$")
    ctx.floor("mcache-heartbeat", "mcache.shift() in heartbeat", sc, 1, exact=True)
    got = lib.count_range(hb, [0], hb.return_blocks(), lib.bbs(sc))
    ctx.ob("mcache-heartbeat", "every heartbeat shifts the history exactly once", got == (1, 1), sc[0].loc() if sc else "", str(got))
    who = sorted({s.body.npath for s in prog.callers(G, MC + r"shift$")})
    ctx.ob("mcache-heartbeat", "only heartbeat shifts the history", who == [hb.npath], msg=str(who))
