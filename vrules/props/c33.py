"""C33 gossipsub caches keep exactly their documented windows — guards (K1), path counting (K2), order (K3), writers / pairing (K4), origin (K5)."""
import re

from .. import lib, lib_gs2, mir
from ..lib_gs2 import Canon, rel_pred, var_pred, bool_pred
from ..mir import render, strip_generics

EXPLANATION = ("DuplicateCache/TimeCache: a key is inserted (map + expiry list, both with the same `now + ttl`) only on the Vacant edge, an "
               "Occupied lookup mutates nothing (no refresh: no write to the expiry field exists outside VacantEntry::insert), insert() "
               "reports true exactly on the Vacant edge; expiry runs before every lookup with the same `now`; remove_expired_keys removes a "
               "map entry only for the popped list element, only when that element is due (not expires > now) and the map entry's own "
               "expiry is due, re-queues a not-yet-due element at the front and stops; the list is only popped at the front and appended at "
               "the back. MessageCache: built with (history_gossip, history_length) in that order; put inserts only on Vacant, records the id "
               "in history[0] exactly once, ignores duplicates; get_with_iwant_counts returns validated messages only and adds exactly one "
               "to the (message id, peer) counter it returns; get_gossip_message_ids reads only history[..gossip] and emits an id only for "
               "entries of the requested topic whose message is present and validated, and emits every such entry (iterator-adaptor form or "
               "explicit loops); shift pops the last slot once, removes msgs and iwant_counts for every popped entry and inserts one empty "
               "slot at index 0; every removal from msgs (shift, remove) is paired with the removal of the id's iwant counters; heartbeat "
               "shifts exactly once. Fields are identified by their types, parameters by position, locals by role.")
ASSUMPTIONS = ["window lengths against a real clock (Instant arithmetic, monotonicity of Instant::now) are not decided",
               "DuplicateCache::contains does not expire lazily-kept entries (expiry happens on the next insert): not part of the claim",
               "std HashMap / VecDeque / Vec semantics"]
G = "libp2p_gossipsub"
CONFIGS = [{"name": "gossipsub-features", "packages": ["libp2p-gossipsub"], "features": "metrics,partial-messages"}]
TC = r"^libp2p_gossipsub::time_cache::"
MC = r"^libp2p_gossipsub::mcache::MessageCache::"
SELFTEST = [
    {"mutation": "seeded/C33: MessageCache::remove no longer removes iwant_counts", "caught_by": "mcache-remove/every msgs removal also drops the id's iwant counters (MessageCache::remove)"},
    {"mutation": "TimeCache::entry Occupied arm: `entry.get_mut().expires = now` (refresh on re-insertion)", "caught_by": "dup-who/expiry of a stored key is never rewritten"},
    {"mutation": "remove_expired_keys: `element.expires > now` -> `element.expires < now`", "caught_by": "dup-expire/removal only for an element that is due (not `expires > now`)"},
    {"mutation": "remove_expired_keys: push_front(element) -> push_back(element)", "caught_by": "dup-expire/list is only popped at the front / re-queued at the front"},
    {"mutation": "TimeCache::entry: remove_expired_keys call deleted", "caught_by": "dup-entry/floor:remove_expired_keys call"},
    {"mutation": "MessageCache::new(config.history_length(), config.history_gossip()) swapped in Behaviour::new", "caught_by": "mcache-new/Behaviour builds the cache with (history_gossip, history_length)"},
    {"mutation": "get_gossip_message_ids: `history[..self.gossip]` -> `history[..]`", "caught_by": "mcache-gossip/only history[..gossip] is read"},
    {"mutation": "get_gossip_message_ids: `if let Some(true)` -> `if let Some(_)`", "caught_by": "mcache-gossip/an id is offered only for a present, validated message"},
    {"mutation": "get_with_iwant_counts: `*count += 1` -> `*count += 2`", "caught_by": "mcache-iwant/counter is incremented by exactly one per request"},
    {"mutation": "shift: `self.history.insert(0, Vec::new())` -> `self.history.push(Vec::new())`", "caught_by": "mcache-shift/history is only popped and front-inserted"},
    {"mutation": "shift: `self.iwant_counts.remove(&entry.mid)` deleted", "caught_by": "mcache-remove/every msgs removal also drops the id's iwant counters (MessageCache::shift)"},
    {"mutation": "put: `self.history[0].push(cache_entry)` -> `self.history[1].push(..)`", "caught_by": "mcache-put/new id is recorded in history[0]"},
    {"mutation": "neutral/gs/08 (iterator chain -> explicit loops in get_gossip_message_ids)", "caught_by": "(silent, as required)"},
]
MUT = r"::(insert|extend|append|push|push_back|push_front|pop|pop_front|pop_back|remove|retain|clear|truncate|drain|split_off|swap_remove|resize|entry|get_mut|rotate_\w+)$"


def fld(prog, adt_pat, ty_pat):
    a = prog.adt(G, adt_pat)
    hits = [f["n"] for f in a["variants"][0]["fields"] if re.search(ty_pat, f["ty"])]
    if len(hits) != 1:
        raise mir.RuleError("field of %s with type %s: %d hits" % (adt_pat, ty_pat, len(hits)))
    return hits[0]


def calls_on(cx, recv_pat):
    """(site, callee) of non-transparent calls whose first argument canonically renders to something matching recv_pat."""
    rx = re.compile(recv_pat)
    out = []
    for s in cx.b.call_sites():
        n = strip_generics(cx.b.call_name(s.term))
        if lib_gs2.TRANSPARENT.search(n):
            continue
        a = cx.args(s)
        if a and rx.search(render(a[0])):
            out.append((s, n))
    return out


def family(prog, body):
    out, work = [], [body]
    while work:
        b = work.pop()
        out.append(b)
        work.extend(prog.children(b))
    return out


def check(ctx):
    prog = ctx.prog
    # fields by type
    F_MAP = fld(prog, r"time_cache::TimeCache$", r"HashMap<")
    F_LIST = fld(prog, r"time_cache::TimeCache$", r"VecDeque<")
    F_TTL = fld(prog, r"time_cache::TimeCache$", r"Duration$")
    F_EXP = fld(prog, r"time_cache::ExpiringElement$", r"Instant$")
    F_ELT = fld(prog, r"time_cache::ExpiringElement$", r"^(?!.*Instant)")
    V_EXP = fld(prog, r"time_cache::VacantEntry$", r"Instant$")
    V_ENT = fld(prog, r"time_cache::VacantEntry$", r"hash_map::VacantEntry<")
    V_LIST = fld(prog, r"time_cache::VacantEntry$", r"VecDeque<")
    O_ENT = fld(prog, r"time_cache::OccupiedEntry$", r"hash_map::OccupiedEntry<")
    M_MSGS = fld(prog, r"mcache::MessageCache$", r"^std::collections::HashMap<types::MessageId, \(types::RawMessage")
    M_IW = fld(prog, r"mcache::MessageCache$", r"^std::collections::HashMap<types::MessageId, std::collections::HashMap<")
    M_HIST = fld(prog, r"mcache::MessageCache$", r"^std::vec::Vec<std::vec::Vec<")
    M_GOSSIP = fld(prog, r"mcache::MessageCache$", r"^usize$")
    E_MID = fld(prog, r"mcache::CacheEntry$", r"MessageId$")
    E_TOPIC = fld(prog, r"mcache::CacheEntry$", r"TopicHash$")
    # =================================================================== DuplicateCache / TimeCache
    di = ctx.body(G, TC + r"DuplicateCache::insert$")
    cdi = Canon(prog, di)
    diw = "%s:%d" % (di.file, di.line)
    ent = di.call_sites(r"time_cache::TimeCache::entry$")
    ins = di.call_sites(r"time_cache::VacantEntry::insert$")
    ctx.floor("dup-insert", "TimeCache::entry call", ent, 1, exact=True)
    ctx.floor("dup-insert", "VacantEntry::insert call", ins, 1, exact=True)
    if ent and ins:
        ENT = r"libp2p_gossipsub::time_cache::TimeCache::entry\(\$1\.0, \$2\)"
        vac = cdi.edges(var_pred("^%s$" % ENT, {"Vacant"}))
        ctx.ob("dup-insert", "floor:Vacant edge", bool(vac), nontrivial=False, msg=str(sorted(vac)))
        ctx.ob("dup-insert", "a key is stored only when it is absent (Vacant)", cdi.dominated(ins[0].bb, vac), ins[0].loc(), "VacantEntry::insert dominated by the Vacant edge of self.0.entry(key)")
        a = render(cdi.args(ins[0])[0])
        ctx.ob("dup-insert", "the vacant entry filled is the one looked up", re.match("^%s@Vacant\\.0$" % ENT, a) is not None, ins[0].loc(), a[-80:])
        for s, e in cdi.returns():
            r = render(e)
            if r == "1":
                ok = cdi.dominated(s.bb, vac) and di.must_pass_nodes([0], [s.bb], lib.bbs(ins))
                ctx.ob("dup-insert", "`true` (first sighting) only after storing a vacant key", ok, s.loc(), "true dominated by Vacant edge + insert")
            elif r == "0":
                ok = all(s.bb not in di.reachable([t]) for _, t in vac)
                ctx.ob("dup-insert", "`false` (seen before) never for a vacant key", ok, s.loc(), "false not reachable from the Vacant edge")
            else:
                ctx.ob("dup-insert", "result is a constant verdict", False, s.loc(), r[:80])
        names = sorted({n for _, n in calls_on(cdi, r".")})
        ctx.ob("dup-insert", "re-insertion does not touch the cache (no refresh)", names == ["libp2p_gossipsub::time_cache::TimeCache::entry", "libp2p_gossipsub::time_cache::VacantEntry::insert"], diw, str(names))
    # TimeCache::entry
    te = ctx.body(G, TC + r"TimeCache::entry$")
    cte = Canon(prog, te)
    tew = "%s:%d" % (te.file, te.line)
    rex = te.call_sites(r"time_cache::TimeCache::remove_expired_keys$")
    look = [s for s, n in calls_on(cte, r"^\$1\.%s$" % F_MAP) if n.endswith("HashMap::entry")]
    nowc = te.call_sites(r"Instant::now$")
    ctx.floor("dup-entry", "remove_expired_keys call", rex, 1, exact=True)
    ctx.floor("dup-entry", "map.entry(key)", look, 1, exact=True)
    ctx.floor("dup-entry", "Instant::now()", nowc, 1, exact=True)
    if rex and look:
        lib.precedes(ctx, "dup-entry", "expiry runs before the lookup", te, lib.bbs(rex), lib.bbs(look), "remove_expired_keys precedes map.entry", rex[0].loc())
        a = cte.args(rex[0])
        ctx.ob("dup-entry", "expiry uses the current time", len(a) == 2 and render(a[0]) == "$1" and a[1][0] == "call" and nowc and a[1][3] == nowc[0].bb, rex[0].loc(), render(a[1])[:80] if len(a) > 1 else "")
        ctx.ob("dup-entry", "looked-up key is the argument", render(cte.args(look[0])[1]) == "$2", look[0].loc(), render(cte.args(look[0])[1]))
        LK = r"^std::collections::HashMap::entry\(\$1\.%s, \$2\)$" % F_MAP
        occ = cte.edges(var_pred(LK, {"Occupied"}))
        ctx.ob("dup-entry", "floor:Occupied edge", bool(occ), nontrivial=False, msg=str(sorted(occ)))
        for _, t in occ:
            r = te.reachable([t])
            cs = [strip_generics(te.call_name(s.term)) for s in te.call_sites() if s.bb in r and not lib_gs2.TRANSPARENT.search(strip_generics(te.call_name(s.term)))]
            ctx.ob("dup-entry", "an Occupied lookup mutates nothing (expiry is not refreshed)", cs == [], tew, "calls on the Occupied arm: %s" % cs)
    vag = te.agg_sites(r"time_cache::VacantEntry$")
    ctx.floor("dup-entry", "VacantEntry construction", vag, 1, exact=True)
    for s in vag:
        f = dict(cte.site(s)[4])
        exp = f.get(V_EXP)
        inner = None
        for x in mir.walk(exp) if exp else []:
            if x[0] == "call" and re.search(r"Instant::checked_add$|ops::Add>::add$|Instant as std::ops::Add", strip_generics(x[1])):
                inner = x
                break
        ok = inner is not None and len(inner[2]) == 2 and render(inner[2][1]) == "$1.%s" % F_TTL and inner[2][0][0] == "call" and nowc and inner[2][0][3] == nowc[0].bb
        ctx.ob("dup-entry", "expiry of a new key = now + ttl (same `now` as the expiry sweep)", bool(ok), s.loc(), render(exp)[:120] if exp else "")
        ctx.ob("dup-entry", "new key is appended to this cache's expiry list", render(f.get(V_LIST, ("unknown", "?"))) == "$1.%s" % F_LIST and render(f.get(V_ENT, ("unknown", "?"))).endswith("@Vacant.0"), s.loc(),
               "list=%s" % render(f.get(V_LIST, ("unknown", "?"))))
    # VacantEntry::insert
    vi = ctx.body(G, TC + r"VacantEntry::insert$")
    cvi = Canon(prog, vi)
    viw = "%s:%d" % (vi.file, vi.line)
    pb = [(s, n) for s, n in calls_on(cvi, r"^\$1\.%s$" % V_LIST)]
    ctx.floor("dup-store", "list mutation in VacantEntry::insert", pb, 1, exact=True)
    EE = r"libp2p_gossipsub::time_cache::ExpiringElement::ExpiringElement"
    for s, n in pb:
        ctx.ob("dup-store", "new key goes to the back of the expiry list", n.endswith("VecDeque::push_back"), s.loc(), n)
        r = render(cvi.args(s)[1])
        ok = re.match(r"^%s\{%s: std::collections::hash_map::VacantEntry::key\(\$1\.%s\), %s: \$1\.%s\}$" % (EE, F_ELT, V_ENT, F_EXP, V_EXP), r) is not None or \
            re.match(r"^%s\{%s: \$1\.%s, %s: std::collections::hash_map::VacantEntry::key\(\$1\.%s\)\}$" % (EE, F_EXP, V_EXP, F_ELT, V_ENT), r) is not None
        ctx.ob("dup-store", "list element = (this key, this expiry)", ok, s.loc(), r[:200])
        lib.expect_count(ctx, "dup-store", "list append exactly once per stored key", vi, [0], vi.return_blocks(), [s.bb], (1, 1), "push_back per insert", s.loc())
    mi = vi.call_sites(r"hash_map::VacantEntry::insert(_entry)?$")
    ctx.floor("dup-store", "map insert in VacantEntry::insert", mi, 1, exact=True)
    for s in mi:
        a = cvi.args(s)
        f = dict((k, render(x)) for k, x in a[1][4]) if len(a) == 2 and a[1][0] == "agg" else {}
        ctx.ob("dup-store", "map value carries the same expiry as the list element", f.get(F_EXP) == "$1.%s" % V_EXP and f.get(F_ELT) == "$2" and render(a[0]) == "$1.%s" % V_ENT, s.loc(), str(f)[:160])
        lib.expect_count(ctx, "dup-store", "map insert exactly once per stored key", vi, [0], vi.return_blocks(), [s.bb], (1, 1), "map insert per insert", s.loc())
    # remove_expired_keys
    rk = ctx.body(G, TC + r"TimeCache::remove_expired_keys$")
    crk = Canon(prog, rk)
    rkw = "%s:%d" % (rk.file, rk.line)
    POP = r"std::collections::VecDeque::pop_front\(\$1\.%s\)@Some\.0" % F_LIST
    rem = rk.call_sites(r"hash_map::OccupiedEntry::remove(_entry)?$|HashMap::remove$")
    ctx.floor("dup-expire", "map removal", rem, 1, exact=True)
    pops = rk.call_sites(r"VecDeque::pop_front$")
    ctx.floor("dup-expire", "pop_front", pops, 1, exact=True)
    stale = crk.edges(rel_pred(r"^%s\.%s$" % (POP, F_EXP), r"^\$2$", "Le"))
    fresh = {(bi, t) for bi in {b_ for b_, _ in stale} for t in rk.succ[bi] if (bi, t) not in stale}
    ENT = r"std::collections::HashMap::entry\(\$1\.%s, %s\.%s\)" % (F_MAP, POP, F_ELT)
    for s in rem:
        ctx.ob("dup-expire", "removal only for an element that is due (not `expires > now`)", crk.dominated(s.bb, stale), s.loc(), "popped element's expiry <= now")
        a = render(crk.args(s)[0])
        if "OccupiedEntry::remove" in strip_generics(rk.call_name(s.term)):
            ctx.ob("dup-expire", "removal only of the popped element's own key", crk.dominated(s.bb, crk.edges(var_pred("^%s$" % ENT, {"Occupied"}))) and re.match(r"^%s@Occupied\.0$" % ENT, a) is not None, s.loc(), a[-120:])
            own = crk.edges(rel_pred(r"^std::collections::hash_map::OccupiedEntry::get\(%s@Occupied\.0\)\.%s$" % (ENT, F_EXP), r"^\$2$", "Le"))
        else:
            k = render(crk.args(s)[1])
            ctx.ob("dup-expire", "removal only of the popped element's own key", a == "$1.%s" % F_MAP and re.match(r"^%s\.%s$" % (POP, F_ELT), k) is not None, s.loc(), k[-120:])
            own = crk.edges(rel_pred(r"^std::collections::HashMap::get\(\$1\.%s, %s\.%s\)@Some\.0\.%s$" % (F_MAP, POP, F_ELT, F_EXP), r"^\$2$", "Le"))
        ctx.ob("dup-expire", "removal only if the stored entry itself is due", crk.dominated(s.bb, own), s.loc(), "entry's own expiry <= now")
    ctx.ob("dup-expire", "floor:not-yet-due edge", bool(fresh), nontrivial=False, msg=str(sorted(fresh)))
    lm = calls_on(crk, r"^\$1\.%s$" % F_LIST)
    ctx.ob("dup-expire", "list is only popped at the front / re-queued at the front", sorted(n.split("::")[-1] for _, n in lm) == ["pop_front", "push_front"], rkw, str(sorted(n for _, n in lm)))
    pf = [s for s, n in lm if n.endswith("push_front")]
    for _, t in fresh:
        got = lib.count_range(rk, [t], rk.return_blocks() + lib.bbs(pops), lib.bbs(pf))
        ctx.ob("dup-expire", "a not-yet-due element is put back exactly once", got == (1, 1), rkw, "push_front on the not-yet-due edge: %s" % (got,))
        r = rk.reachable([t])
        ctx.ob("dup-expire", "the sweep stops at the first not-yet-due element", not (set(lib.bbs(pops)) & r) and not (set(lib.bbs(rem)) & r), rkw, "no further pop / removal after re-queueing")
    for s in pf:
        a = render(crk.args(s)[1])
        ctx.ob("dup-expire", "the element put back is the element popped", re.match("^%s$" % POP, a) is not None, s.loc(), a[-80:])
        ctx.ob("dup-expire", "put back only when not yet due", bool(fresh) and rk.must_pass_edges(s.bb, fresh), s.loc(), "expires > now")
    # readers
    b = ctx.body(G, TC + r"TimeCache::contains_key$")
    r0 = [render(e) for _, e in Canon(prog, b).returns()]
    ctx.ob("dup-read", "TimeCache::contains_key reads the map", r0 == ["std::collections::HashMap::contains_key($1.%s, $2)" % F_MAP], "%s:%d" % (b.file, b.line), str(r0))
    b = ctx.body(G, TC + r"DuplicateCache::contains$")
    r0 = [render(e) for _, e in Canon(prog, b).returns()]
    ctx.ob("dup-read", "DuplicateCache::contains reads the map", r0 == ["libp2p_gossipsub::time_cache::TimeCache::contains_key($1.0, $2)"], "%s:%d" % (b.file, b.line), str(r0))
    # constructors
    b = ctx.body(G, TC + r"TimeCache::new$")
    ag = b.agg_sites(r"time_cache::TimeCache$")
    ctx.ob("dup-new", "TimeCache::new stores ttl", len(ag) == 1 and dict((k, render(x)) for k, x in Canon(prog, b).site(ag[0])[4]).get(F_TTL) == "$1", "%s:%d" % (b.file, b.line), "")
    b = ctx.body(G, TC + r"DuplicateCache::new$")
    r0 = [render(e) for _, e in Canon(prog, b).returns()]
    ctx.ob("dup-new", "DuplicateCache::new passes ttl", r0 == ["libp2p_gossipsub::time_cache::DuplicateCache::DuplicateCache{0: libp2p_gossipsub::time_cache::TimeCache::new($1)}"], "%s:%d" % (b.file, b.line), str(r0)[:200])
    # who writes expiry / builds elements
    tcb = [b_ for b_ in prog.bodies(G) if re.search(TC, b_.npath)]
    w = [(b_.npath, s) for b_ in tcb for s in b_.field_write_sites(F_EXP) + b_.field_write_sites(V_EXP)]
    ctx.ob("dup-who", "expiry of a stored key is never rewritten", not w, w[0][1].loc() if w else "", "assignments to the expiry fields: %s" % [x for x, _ in w])
    aggs = [(b_.npath, s) for b_ in prog.bodies(G) for s in b_.agg_sites(r"time_cache::ExpiringElement$")]
    ctx.ob("dup-who", "expiring elements are only created when a vacant key is stored", len(aggs) == 2 and {x for x, _ in aggs} == {vi.npath}, viw, str(sorted({x for x, _ in aggs})))
    mm = sorted({n.split("::")[-1] for b_ in tcb for _, n in calls_on(Canon(prog, b_), r"(^|\.)%s$" % F_MAP) if "HashMap" in n})
    ctx.ob("dup-who", "the map is only accessed through entry / contains_key", set(mm) <= {"entry", "contains_key", "default", "clear", "get", "len", "is_empty"} and "entry" in mm, msg=str(mm))
    im = ctx.body(G, TC + r"OccupiedEntry::into_mut$")
    r0 = [render(e) for _, e in Canon(prog, im).returns()]
    ctx.ob("dup-who", "OccupiedEntry exposes only the value, not the expiry", r0 == ["std::collections::hash_map::OccupiedEntry::into_mut($1.%s).%s" % (O_ENT, F_ELT)], "%s:%d" % (im.file, im.line), str(r0))
    # =================================================================== MessageCache
    nb = ctx.body(G, MC + r"new$")
    cnb = Canon(prog, nb)
    ag = nb.agg_sites(r"mcache::MessageCache$")
    ctx.floor("mcache-new", "MessageCache construction", ag, 1, exact=True)
    gpos = hpos = None
    for s in ag:
        f = dict(cnb.site(s)[4])
        g_, h_ = f.get(M_GOSSIP), f.get(M_HIST)
        gpos = g_[1] if g_ is not None and g_[0] == "arg" else None
        ha = [x for x in mir.walk(h_) if x[0] == "arg"] if h_ is not None else []
        hpos = ha[0][1] if len(ha) == 1 else None
        ctx.ob("mcache-new", "history has `capacity` empty slots, gossip window stored", gpos is not None and hpos is not None and gpos != hpos and re.match(r"^std::vec::from_elem\(std::vec::Vec::new\(\), \$%d\)$" % hpos, render(h_)) is not None, s.loc(),
               "gossip=%s history=%s" % (render(g_) if g_ else None, render(h_) if h_ else None))
    # the two configuration values by flow: setter (public name) -> Config field -> getter
    getter_of = {}
    for nm in ("history_gossip", "history_length"):
        sb = ctx.body(G, r"^libp2p_gossipsub::config::ConfigBuilder::%s$" % nm)
        csb = Canon(prog, sb)
        written = set()
        for bi in sb.live:
            for si, st in enumerate(sb.blocks[bi]["stmts"]):
                if st["k"] == "assign" and st["p"].get("pr") and render(csb.x(sb.rvalue_expr(st["r"]))) == "$2":
                    fl = [pr["n"] for pr in st["p"]["pr"] if pr["k"] == "field"]
                    if fl:
                        written.add(fl[-1])
        for gb in prog.bodies(G):
            if gb.kind != "closure" and re.match(r"^libp2p_gossipsub::config::Config::\w+$", gb.npath) and gb.argc == 1:
                r0 = [render(e) for _, e in Canon(prog, gb).returns()]
                if len(r0) == 1 and r0[0] in {"$1.%s" % f for f in written}:
                    getter_of[nm] = gb.npath
        ctx.ob("mcache-new", "ConfigBuilder::%s is read back by a Config getter" % nm, nm in getter_of, "%s:%d" % (sb.file, sb.line), "field(s) %s -> getter %s" % (sorted(written), getter_of.get(nm)))
    callers = prog.callers(G, MC + r"new$")
    ctx.floor("mcache-new", "MessageCache::new callers", callers, 1)
    for s in callers:
        a = Canon(prog, s.body).args(s)
        names = [strip_generics(x[1]) if x[0] == "call" else render(x) for x in a]
        want = {gpos: getter_of.get("history_gossip"), hpos: getter_of.get("history_length")}
        ok = len(a) == 2 and gpos in (1, 2) and hpos in (1, 2) and all(names[i - 1] == want[i] for i in (1, 2)) and all(x[0] == "call" and len(x[2]) == 1 for x in a) and render(a[0][2][0]) == render(a[1][2][0])
        ctx.ob("mcache-new", "Behaviour builds the cache with (history_gossip, history_length)", ok, s.loc(), str(names))
    dcc = prog.callers(G, TC + r"DuplicateCache::new$")
    for s in dcc:
        a = [render(x) for x in Canon(prog, s.body).args(s)]
        ctx.ob("dup-new", "duplicate cache ttl = config.duplicate_cache_time()", len(a) == 1 and re.match(r"^libp2p_gossipsub::config::Config::duplicate_cache_time\(.*\)$", a[0]) is not None, s.loc(), str(a))
    ctx.floor("dup-new", "DuplicateCache::new callers", dcc, 1)
    # ---- put
    p = ctx.body(G, MC + r"put$")
    cp = Canon(prog, p)
    pw = "%s:%d" % (p.file, p.line)
    pe = [s for s, n in calls_on(cp, r"^\$1\.%s$" % M_MSGS) if n.endswith("HashMap::entry")]
    pins = p.call_sites(r"hash_map::VacantEntry::insert(_entry)?$")
    hp_deep = [x for x in lib_gs2.deep_calls(cp, r"Vec::push$") if "$1.%s" % M_HIST in render(x[1][0]) and x[2] == (1, 1)]
    hp = [x[0] for x in hp_deep]
    ctx.floor("mcache-put", "msgs.entry", pe, 1, exact=True)
    ctx.floor("mcache-put", "msgs insert", pins, 1, exact=True)
    ctx.floor("mcache-put", "history push", hp, 1, exact=True)
    if pe and pins and hp:
        k = render(cp.args(pe[0])[1])
        ctx.ob("mcache-put", "looked up by the message id", k == "$2", pe[0].loc(), k)
        PE = r"^std::collections::HashMap::entry\(\$1\.%s, \$2\)$" % M_MSGS
        vac = cp.edges(var_pred(PE, {"Vacant"}))
        occ = cp.edges(var_pred(PE, {"Occupied"}))
        ctx.ob("mcache-put", "floor:entry edges", bool(vac) and bool(occ), nontrivial=False)
        for s in pins + hp:
            ctx.ob("mcache-put", "a message is stored / recorded only for a new id", cp.dominated(s.bb, vac), s.loc(), "dominated by the Vacant edge")
        for _, t in vac:
            for nm, ss in (("msgs insert", pins), ("history[0] push", hp)):
                got = lib.count_range(p, [t], p.return_blocks(), lib.bbs(ss))
                ctx.ob("mcache-put", "new id: %s exactly once" % nm, got == (1, 1), pw, str(got))
        for _, t in occ:
            r = p.reachable([t])
            ctx.ob("mcache-put", "duplicate put changes nothing", not (set(lib.bbs(pins + hp)) & r), pw, "no insert / push on the Occupied arm")
            vals = {render(e) for s, e in cp.returns() if s.bb in r}
            ctx.ob("mcache-put", "duplicate put reports false", vals == {"0"}, pw, str(sorted(vals)))
        r = render(hp_deep[0][1][0])
        ctx.ob("mcache-put", "new id is recorded in history[0]", re.match(r"^<std::vec::Vec as std::ops::IndexMut>::index_mut\(\$1\.%s, 0\)$|^\$1\.%s\[0\]$" % (M_HIST, M_HIST), r) is not None, hp[0].loc(), r)
        a1 = hp_deep[0][1][1]
        f = dict((k_, render(x)) for k_, x in a1[4]) if a1[0] == "agg" else {}
        ctx.ob("mcache-put", "history entry = (this id, the message's topic)", f.get(E_MID) == "$2" and f.get(E_TOPIC) == "$3.topic", hp[0].loc(), str(f)[:220])
        r = render(cp.args(pins[0])[1])
        ctx.ob("mcache-put", "stored value = (msg, no known peers)", re.match(r"^tuple\{0: \$3, 1: (<std::collections::HashSet as std::default::Default>::default|std::collections::HashSet::new|std::default::Default::default)\(\)\}$", r) is not None, pins[0].loc(), r[:120])
    # ---- get_with_iwant_counts (closure or inline form)
    gw = ctx.body(G, MC + r"get_with_iwant_counts$")
    CNT = (r"^std::collections::hash_map::Entry::or_(default|insert)\(std::collections::HashMap::entry\(std::collections::hash_map::Entry::or_(default|insert_with)\("
           r"std::collections::HashMap::entry\(\$1\.%s, \$2\)(, .*?)?\), \$3\)(, 0)?\)$" % M_IW)
    found = []
    for b_ in family(prog, gw):
        cb_ = Canon(prog, b_)
        for l in {k for k in b_.defs if isinstance(k, int)}:
            ini = cb_.init(l)
            if ini is not None and re.match(CNT, render(ini)):
                found.append((b_, cb_, l))
    ctx.floor("mcache-iwant", "counter keyed by (message id, peer) in iwant_counts", found, 1, exact=True)
    ctx.ob("mcache-iwant", "counter is keyed by (message id, peer)", len(found) == 1, "%s:%d" % (gw.file, gw.line), "entry(iwant_counts, message_id).entry(peer)")
    for b_, cb_, l in found:
        cr = Canon(prog, b_, {l: "count"}, parent=cb_._parent)
        bw = "%s:%d" % (b_.file, b_.line)
        MSG = r"(c+\$2|std::collections::HashMap::get\(\$1\.%s, \$2\)@Some\.0)" % M_MSGS
        somes = [(s, e) for s, e in cr.returns() if render(e).startswith("std::option::Option::Some")]
        ctx.floor("mcache-iwant", "Some result", somes, 1, exact=True)
        validated = cr.edges(bool_pred(r"^%s\.0\.validated$" % MSG, True))
        unvalidated = cr.edges(bool_pred(r"^%s\.0\.validated$" % MSG, False))
        for s, e in somes:
            ctx.ob("mcache-iwant", "a message is returned for IWANT only if validated", cr.dominated(s.bb, validated), s.loc(), "message.validated")
            r = render(e)
            ctx.ob("mcache-iwant", "returns the message and the peer's counter", re.match(r"^std::option::Option::Some\{0: tuple\{0: %s\.0, 1: count\}\}$" % MSG, r) is not None, s.loc(), r[:120])
        incs = [x for x in b_.defs.get((l, "partial"), []) if x[0] == "stmt"] + [x for x in b_.defs.get(l, [])[1:]]
        ctx.floor("mcache-iwant", "counter update", incs, 1, exact=True)
        for x in incs:
            r = cr.r(b_.rvalue_expr(x[3]))
            site = mir.Site(b_, x[1], x[2])
            ctx.ob("mcache-iwant", "counter is incremented by exactly one per request", r in ("AddWithOverflow(count, 1).0", "AddWithOverflow(1, count).0"), site.loc(), r)
            for s, e in somes:
                got = lib.count_range(b_, [0], [s.bb], [x[1]])
                ctx.ob("mcache-iwant", "every answered request is counted once, before the count is reported", got == (1, 1), site.loc(), "increments on the path to Some: %s" % (got,))
        for _, t in unvalidated:
            r = b_.reachable([t])
            cs = [s for s in b_.call_sites() if s.bb in r and not lib_gs2.TRANSPARENT.search(strip_generics(b_.call_name(s.term)))]
            ctx.ob("mcache-iwant", "an unvalidated message is neither returned nor counted", not cs and {render(e) for s, e in cr.returns() if s.bb in r} == {"std::option::Option::None{}"}, bw, "None without touching the counters")
        ctx.ob("mcache-iwant", "floor:unvalidated edge", bool(unvalidated), nontrivial=False)
        if b_ is not gw:
            r0 = [render(e) for _, e in Canon(prog, gw).returns()]
            ctx.ob("mcache-iwant", "looks the id up in msgs", len(r0) == 1 and re.match(r"^std::option::Option::and_then\(std::collections::HashMap::get\(\$1\.%s, \$2\), closure:" % M_MSGS, r0[0]) is not None, "%s:%d" % (gw.file, gw.line), r0[0][:160] if r0 else "")
    # ---- validate
    vb = ctx.body(G, MC + r"validate$")
    ws = [(b_, s) for b_ in family(prog, vb) for s in b_.field_write_sites("validated")]
    ctx.ob("mcache-validate", "validate marks the message validated", len(ws) == 1 and render(ws[0][0].site_expr(ws[0][1])) == "1", "%s:%d" % (vb.file, vb.line), str([render(b_.site_expr(s)) for b_, s in ws]))
    gm = [s for s, n in calls_on(Canon(prog, vb), r"^\$1\.%s$" % M_MSGS)]
    ctx.ob("mcache-validate", "validate addresses the message by id", len(gm) == 1 and render(Canon(prog, vb).args(gm[0])[1]) == "$2", "%s:%d" % (vb.file, vb.line), str([strip_generics(vb.call_name(s.term)) for s in gm]))
    # ---- get_gossip_message_ids: adaptor-closure form or explicit-loop form
    gg = ctx.body(G, MC + r"get_gossip_message_ids$")
    cgg = Canon(prog, gg)
    ggw = "%s:%d" % (gg.file, gg.line)
    fam = family(prog, gg)
    hist_reads = []
    for b_ in fam:
        cb_ = Canon(prog, b_)
        for s in b_.call_sites():
            n = strip_generics(b_.call_name(s.term))
            if lib_gs2.TRANSPARENT.search(n):
                continue
            for a in cb_.args(s):
                if any(render(x) == "$1.%s" % M_HIST for x in mir.walk(a) if x[0] == "field"):
                    hist_reads.append((b_, s, render(cb_.site(s))))
    WIN = r"<std::vec::Vec as std::ops::Index>::index\(\$1\.%s, std::ops::RangeTo::RangeTo\{end: \$1\.%s\}\)" % (M_HIST, M_GOSSIP)
    direct = [h for h in hist_reads if re.search(r"\(\$1\.%s[,)]" % M_HIST, h[2]) and re.match(r"^[^()]*\(\$1\.%s" % M_HIST, h[2])]
    ctx.ob("mcache-gossip", "only history[..gossip] is read", len(direct) == 1 and re.match("^%s$" % WIN, direct[0][2]) is not None, direct[0][1].loc() if direct else ggw, str([h[2][:140] for h in direct]))
    # (b) emit sites
    emits = []      # (body, canon, site, entry_expr_render, kind)
    for b_ in fam:
        cb_ = Canon(prog, b_)
        for s, e in cb_.returns():
            m = re.match(r"^std::option::Option::Some\{0: (.*)\.%s\}$" % E_MID, render(e))
            if m and b_ is not gg:
                emits.append((b_, cb_, s, m.group(1), "filter_map"))
        for s in b_.call_sites(r"Vec::push$"):
            a = cb_.args(s)
            m = re.match(r"^(.*)\.%s$" % E_MID, render(a[1]))
            if m:
                emits.append((b_, cb_, s, m.group(1), "push"))
    ctx.floor("mcache-gossip", "site that offers a message id", emits, 1, exact=True)
    for b_, cb_, s, ent_, kind in emits:
        EN = re.escape(ent_)
        gs = cb_.guards(s.bb)
        ctx.ob("mcache-gossip", "only ids of the requested topic are offered", any(rel_pred("^%s\\.%s$" % (EN, E_TOPIC), r"^\$2$", "Eq")(a) for a in gs), s.loc(), "entry.topic == topic")
        GET = r"std::collections::HashMap::get\(\$1\.%s, %s\.%s\)" % (M_MSGS, EN, E_MID)
        okv, det = False, ""
        for a in gs:
            if a[0] == "bool" and a[2] is True and re.search(GET, a[1]):
                if re.match(r"^%s@Some\.0\.0\.validated$" % GET, a[1]):
                    okv = True
                else:
                    # the truth value comes out of a closure applied to the stored message: it must be its `validated` flag
                    raw_conds = [x for x in (b_.switch_info(bi)[0] for bi in b_.live if b_.switch_info(bi)) if re.search(GET, cb_.r(x))]
                    cls = [c for x in raw_conds for c in cb_.closures_in(x)]
                    rr = {render(e) for c in cls for _, e in c.returns()}
                    okv = bool(cls) and all(re.match(r"^c+\$2\.0\.validated$", r) for r in rr)
                    det = str(sorted(rr))
        ctx.ob("mcache-gossip", "an id is offered only for a present, validated message", okv, s.loc(), "msgs.get(mid) is Some and its `validated` is true %s" % det)
        # (c) completeness
        if kind == "filter_map":
            r0 = [render(e) for _, e in cgg.returns()]
            ok_fold = len(r0) == 1 and re.match(r"^<std::slice::Iter as std::iter::Iterator>::fold\(core::slice::iter\(%s\), std::vec::Vec::new\(\), closure:" % WIN, r0[0]) is not None
            ctx.ob("mcache-gossip", "every slot of the window is visited", ok_fold, ggw, str(r0)[:200])
            fo = b_
            while fo is not None and fo.parent != gg.path:
                fo = next((x for x in fam if x.path == fo.parent), None)
            ok_acc, detail = False, ""
            if fo is not None and fo is not b_:
                cfo = Canon(prog, fo)
                ap = [x for x in fo.call_sites(r"Vec::append$|Vec as std::iter::Extend>::extend$")]
                if len(ap) == 1:
                    a = cfo.args(ap[0])
                    src = cfo.init(a[1][1]) if a[1][0] == "local" else a[1]
                    okc = src is not None and re.match(r"^std::iter::Iterator::collect\(std::iter::Iterator::filter_map\(core::slice::iter\(c\$3\), closure:", render(src)) is not None and \
                        any(c.b is b_ for c in cfo.closures_in(fo.rvalue_expr(fo.defs[a[1][1]][0][3]) if a[1][0] == "local" and fo.defs[a[1][1]][0][0] == "stmt" else fo.call_expr(fo.defs[a[1][1]][0][3], fo.defs[a[1][1]][0][1]))) if a[1][0] == "local" else False
                    rets = [render(e) for _, e in cfo.returns()]
                    ok_acc = okc and render(a[0]) == "c$2" and rets == ["c$2"]
                    detail = "append(acc, collect(filter_map(iter(slot), f))); return acc: %s" % ok_acc
            ctx.ob("mcache-gossip", "every offered id of every visited slot is accumulated", ok_acc, "%s:%d" % ((fo or gg).file, (fo or gg).line), detail)
        else:
            # explicit loops: outer over the window, inner over the slot, one push per qualifying entry, the pushed vector is returned
            cb2 = cb_
            vec = cb2.args(s)[0]
            rets = [e for _, e in cb2.returns()]
            ok_ret = b_ is gg and len(rets) == 1 and vec[0] == "local" and rets[0] == vec
            vinit = cb2.init(vec[1]) if vec[0] == "local" else None
            others = [n for s2, n in calls_on(cb2, "^%s$" % re.escape(render(vec))) if re.search(MUT, n) and s2 != s]
            ctx.ob("mcache-gossip", "the vector the ids are pushed into starts empty and is what is returned", ok_ret and vinit is not None and re.match(r"^std::vec::Vec::new\(\)$", render(vinit)) is not None and not others, s.loc(), "init %s, other mutators %s" % (render(vinit) if vinit else None, others))
            loops = []
            for text, labels, sw, cond in b_.guards_on_all_paths(s.bb):
                if labels == frozenset({"Some"}) and cond[0] == "discr" and cond[1][0] == "call" and re.search(r"iter::Iterator>::next$", strip_generics(cond[1][1])) and cond[1][2] and cond[1][2][0][0] == "local":
                    loops.append((sw, cond[1][2][0][1], cond[1][3]))
            loops.sort(key=lambda x: len(b_.dominators().get(x[0], ())))
            ok_nest = False
            if len(loops) == 2:
                (osw, oit, ohead), (isw, iit, ihead) = loops
                cl2 = Canon(prog, b_, {oit: "oit", iit: "iit"})
                oi, ii = cl2.init(oit), cl2.init(iit)
                ok_nest = oi is not None and ii is not None and re.search(WIN, render(oi)) is not None and re.search(r"next\(oit\)@Some\.0\)*$", render(ii)) is not None and \
                    re.match(r"^<.* as std::iter::Iterator>::next\(iit\)@Some\.0$", ent_.replace(cb_.r(("local", iit, None)), "iit")) is not None
                # one push per qualifying entry: from the last guard's accepting edge the push is on every path back to the inner head
                acc = cb_.edges(lambda a: a[0] == "bool" and a[2] is True and re.search(GET, a[1]) is not None)
                got = lib.count_range(b_, [t for _, t in acc], [ihead], [s.bb]) if acc else None
                ctx.ob("mcache-gossip", "every qualifying entry is pushed exactly once", got == (1, 1), s.loc(), "pushes per qualifying entry: %s" % (got,))
                # no early exit from the loops
                body_r = b_.reachable([t for t, ls in b_.switch_info(osw)[1].items() if "Some" in ls], stop_nodes=[ohead])
                ctx.ob("mcache-gossip", "the loops visit every slot and entry (no early exit)", not (set(b_.return_blocks()) & body_r), s.loc(), "no return inside the loops")
            ctx.ob("mcache-gossip", "every slot of the window is visited", ok_nest, ggw, "outer loop over history[..gossip], inner loop over the slot's entries: %s" % ok_nest)
    # ---- shift
    sh = ctx.body(G, MC + r"shift$")
    csh = Canon(prog, sh)
    shw = "%s:%d" % (sh.file, sh.line)
    hist = calls_on(csh, r"^\$1\.%s$" % M_HIST)
    kinds = sorted(n.split("::")[-1] for _, n in hist if re.search(MUT, n))
    ctx.ob("mcache-shift", "history is only popped and front-inserted", kinds == ["insert", "pop"], shw, str(kinds))
    pop = [s for s, n in hist if n.endswith("Vec::pop")]
    insf = [s for s, n in hist if n.endswith("Vec::insert")]
    nonempty = csh.edges(rel_pred(r"^std::vec::Vec::len\(\$1\.%s\)$" % M_HIST, r"^0$", "Ne"))
    rets = sh.return_blocks()
    for _, t in nonempty:
        for nm, ss in (("the last slot is popped", pop), ("one empty slot is inserted", insf)):
            got = lib.count_range(sh, [t], rets, lib.bbs(ss))
            ctx.ob("mcache-shift", "%s exactly once per shift" % nm, got == (1, 1), shw, str(got))
    ctx.ob("mcache-shift", "floor:non-empty edge", bool(nonempty), nontrivial=False)
    for s in insf:
        a = [render(x) for x in csh.args(s)]
        ctx.ob("mcache-shift", "one empty slot is inserted at the front", a[1:] == ["0", "std::vec::Vec::new()"], s.loc(), str(a[1:]))
        if pop:
            lib.precedes(ctx, "mcache-shift", "the old slot is dropped before the new one is added", sh, lib.bbs(pop), [s.bb], "pop precedes insert(0, ..)", s.loc())
    REM = r"HashMap::(remove|remove_entry)$"
    mrem = [x[0] for x in lib_gs2.deep_calls(csh, REM, r"^\$1\.%s$" % M_MSGS) if x[2] == (1, 1)]
    irem = [x[0] for x in lib_gs2.deep_calls(csh, REM, r"^\$1\.%s$" % M_IW) if x[2] == (1, 1)]
    loops = []
    for s in mrem[:1]:
        for text, labels, sw, cond in sh.guards_on_all_paths(s.bb):
            if labels == frozenset({"Some"}) and cond[0] == "discr" and cond[1][0] == "call" and re.search(r"iter::Iterator>::next$", strip_generics(cond[1][1])) and cond[1][2] and cond[1][2][0][0] == "local":
                loops.append((sw, cond[1][2][0][1], cond[1][3]))
    ctx.floor("mcache-shift", "loop over the popped slot", loops, 1, exact=True)
    if loops:
        sw, itl, headbb = loops[0]
        c2 = Canon(prog, sh, {itl: "it"})
        ii = c2.init(itl)
        ctx.ob("mcache-shift", "the entries expired are those of the popped slot", ii is not None and re.search(r"into_iter\(std::option::Option::(expect|unwrap\w*)\(std::vec::Vec::pop\(\$1\.%s\)" % M_HIST, render(ii)) is not None, shw, render(ii)[:200] if ii else "")
        some = [t for t, ls in sh.switch_info(sw)[1].items() if "Some" in ls]
        keyed = {"message": lib_gs2.deep_calls(c2, REM, r"^\$1\.%s$" % M_MSGS), "iwant counters": lib_gs2.deep_calls(c2, REM, r"^\$1\.%s$" % M_IW)}
        for nm, ss in (("message", mrem), ("iwant counters", irem)):
            got = lib.count_range(sh, some, [headbb], lib.bbs(ss)) if some else None
            ctx.ob("mcache-shift", "every popped entry's %s is removed" % nm, got == (1, 1), shw, "removals per popped entry: %s" % (got,))
            for s, a_, _, _ in keyed[nm]:
                k = render(a_[1])
                ctx.ob("mcache-shift", "removal is keyed by the popped entry's id", re.match(r"^<.* as std::iter::Iterator>::next\(it\)@Some\.0\.%s$" % E_MID, k) is not None, s.loc(), k[-60:])
    # ---- removal pairing (K4): msgs.remove(k) is always accompanied by iwant_counts.remove(k)
    n_pairs = 0
    for b_ in prog.bodies(G):
        if not re.search(r"^libp2p_gossipsub::mcache::", b_.npath):
            continue
        cb_ = Canon(prog, b_)
        ms = [x for x in lib_gs2.deep_calls(cb_, r"HashMap::(remove|remove_entry)$", r"(^|\.)%s$" % M_MSGS) if x[2][0] >= 1]
        iws = [x for x in lib_gs2.deep_calls(cb_, r"HashMap::(remove|remove_entry)$", r"(^|\.)%s$" % M_IW) if x[2][0] >= 1]
        for m, ma, _, _ in ms:
            n_pairs += 1
            k = render(ma[1])
            cands = [w_ for w_, wa, _, _ in iws if render(wa[1]) == k]
            ok = False
            for w_ in cands:
                if w_.bb == m.bb or b_.dominates(w_.bb, m.bb) or b_.must_pass_nodes(b_.succ[m.bb], b_.return_blocks() + [m.bb], [w_.bb]):
                    ok = True
            fn = b_.npath.split("::")[-2] + "::" + b_.npath.split("::")[-1]
            ctx.ob("mcache-remove", "every msgs removal also drops the id's iwant counters (%s)" % fn, ok, m.loc(),
                   "iwant_counts.remove(k) accompanies msgs.remove(k) on every path" if ok else
                   "msgs.remove without iwant_counts.remove of the same id: a later put of the same id continues counting from the stale value")
    ctx.ob("mcache-remove", "floor:msgs removal sites", n_pairs >= 2, nontrivial=False, msg="%d" % n_pairs)
    rm = ctx.body(G, MC + r"remove$")
    r0 = [render(e) for _, e in Canon(prog, rm, inline=r"^libp2p_gossipsub::mcache::").returns()]
    ctx.ob("mcache-remove", "remove returns the removed message", r0 == ["std::collections::HashMap::remove($1.%s, $2)" % M_MSGS], "%s:%d" % (rm.file, rm.line), str(r0))
    # ---- heartbeat shifts once
    hb = ctx.body(G, r"^libp2p_gossipsub::behaviour::Behaviour::heartbeat$")
    sc = hb.call_sites(MC[1:] + r"shift$")
    ctx.floor("mcache-heartbeat", "mcache.shift() in heartbeat", sc, 1, exact=True)
    got = lib.count_range(hb, [0], hb.return_blocks(), lib.bbs(sc))
    ctx.ob("mcache-heartbeat", "every heartbeat shifts the history exactly once", got == (1, 1), sc[0].loc() if sc else "", str(got))
    who = sorted({s.body.npath for s in prog.callers(G, MC + r"shift$")})
    ctx.ob("mcache-heartbeat", "only heartbeat shifts the history", who == [hb.npath], msg=str(who))
