"""C11 protocol-change notifications track the advertised protocol sets — path counting (K2), order (K3), origin (K5)."""
import re

from .. import lib, mir
from ..mir import render

EXPLANATION = ("Connection::poll: on the Some edge of ProtocolsChange::add the handler is notified exactly once and "
               "remote_supported_protocols is extended with exactly the drained buffer once; on the Some edge of remove it is notified once; "
               "None edges notify nothing; every element of from_full_sets' result is delivered as LocalProtocolsChange. "
               "ProtocolsChange::add emits exactly `to_add` filtered by !existing.contains; remove emits exactly what existing.take() "
               "returned (and thereby removes it); from_full_sets marks all entries unvisited, marks/inserts each advertised name, records "
               "new names before and dropped names after the split index, and retains exactly the visited entries.")
ASSUMPTIONS = ["duplicate advertised names defeat from_full_sets' no-change shortcut (new_protocol_count == existing.len()); no structural rule "
               "separates that from a correct shortcut, so the duplicate-name clause is NOT decided (DESIGN O1)",
               "HashSet/HashMap semantics"]
SW = "libp2p_swarm"
PC = r"handler::ProtocolsChange::"


def check(ctx):
    p = ctx.body(SW, r"^libp2p_swarm::connection::Connection::poll$")
    CE = r"handler::ConnectionEvent$"

    def notif(variant):
        return lib.calls_with_variant(p, r"ConnectionHandler::on_connection_event$", CE, variant)
    rpc = notif("RemoteProtocolsChange")
    lpc = notif("LocalProtocolsChange")
    ctx.floor("deliver", "RemoteProtocolsChange notifications", rpc, 2)
    ctx.floor("deliver", "LocalProtocolsChange notifications", lpc, 1)
    hp = p.call_sites(r"ConnectionHandler::poll$")
    loop_or_ret = lib.bbs(hp) + p.return_blocks()
    ext = [s for s in p.call_sites(r"Extend>::extend$") if "remote_supported_protocols" in render(p.site_expr(s)[2][0])]
    ctx.floor("deliver", "remote_supported_protocols.extend", ext, 1)
    for fn in ("add", "remove"):
        cs = p.call_sites(PC + fn + "$")
        ctx.floor("deliver", "ProtocolsChange::%s call" % fn, cs, 1)
        for s in cs:
            some = [t for _, t in lib.switch_edges_on_site(p, s, {"Some"})]
            none = [t for _, t in lib.switch_edges_on_site(p, s, {"None"})]
            ctx.ob("deliver", "floor:%s edges" % fn, len(some) == 1 and len(none) == 1, nontrivial=False, msg="%s %s" % (some, none))
            got = lib.count_range(p, some, loop_or_ret, lib.bbs(rpc))
            ctx.ob("deliver", "%s: change => handler notified exactly once" % fn, got == (1, 1), s.loc(), "notifications on the Some edge: %s" % (got,))
            got = lib.count_range(p, none, loop_or_ret, lib.bbs(rpc))
            ctx.ob("deliver", "%s: no change => no notification" % fn, got == (0, 0), s.loc(), "notifications on the None edge: %s" % (got,))
            e = render(p.site_expr(s))
            ctx.ob("deliver", "%s operates on remote_supported_protocols + reported set" % fn,
                   ".remote_supported_protocols, " in e and re.search(r"@ReportRemoteProtocols\.0@(Added|Removed)\.0, ", e) is not None and
                   ("@Added.0" in e) == (fn == "add"), s.loc(), e[:220])
            if fn == "add":
                got = lib.count_range(p, some, loop_or_ret, lib.bbs(ext))
                ctx.ob("deliver", "add: set extended exactly once with the emitted names", got == (1, 1), s.loc(), "extend on the Some edge: %s" % (got,))
                got = lib.count_range(p, none, loop_or_ret, lib.bbs(ext))
                ctx.ob("deliver", "add: nothing stored when nothing was emitted", got == (0, 0), s.loc(), "extend on the None edge: %s" % (got,))
                for x in ext:
                    r = render(p.site_expr(x)[2][1])
                    ctx.ob("deliver", "stored names = drained emission buffer", r.startswith("std::vec::Vec::drain(") and ".protocol_buffer, " in r, x.loc(), r[:120])
                    # notification happens before the buffer is drained
                    lib.precedes(ctx, "deliver", "notify before drain", p, [n.bb for n in rpc if n.bb in p.reachable(some)], [x.bb],
                                 "handler sees the emitted names before the buffer is drained", x.loc())
    # the notification passes the computed change
    for s in rpc:
        r = render(p.site_expr(s))
        ctx.ob("deliver", "notification carries the computed change", re.search(r"RemoteProtocolsChange\{0: libp2p_swarm::handler::ProtocolsChange::(add|remove)\(.*\)@Some\.0\}", r) is not None, s.loc(), r[-200:])
    # local changes: every element delivered
    ff = p.call_sites(PC + r"from_full_sets$")
    ctx.floor("deliver", "from_full_sets call", ff, 1)
    for s in ff:
        e = render(p.site_expr(s))
        ctx.ob("deliver", "diff is computed against the current listen protocol", ".local_supported_protocols, " in e and "ConnectionHandler::listen_protocol(" in e and "UpgradeInfoSend::protocol_info(" in e, s.loc(), e[:260])
    nx = [s for s in p.call_sites(r"smallvec::IntoIter as std::iter::Iterator>::next$")]
    ctx.floor("deliver", "changes iteration", nx, 1)
    for s in nx:
        some = [t for _, t in lib.switch_edges_on_site(p, s, {"Some"})]
        got = lib.count_range(p, some, [s.bb], lib.bbs(lpc))
        ctx.ob("deliver", "every local change element is delivered once", got == (1, 1), s.loc(), "LocalProtocolsChange per element: %s" % (got,))
    for s in lpc:
        r = render(p.site_expr(s))
        ctx.ob("deliver", "delivered element is the iterated change", "LocalProtocolsChange{0: <smallvec::IntoIter as std::iter::Iterator>::next(" in r and "@Some.0}" in r, s.loc(), r[-160:])
    # initial set in Connection::new
    n = ctx.body(SW, r"^libp2p_swarm::connection::Connection::new$")
    ini = n.call_sites(PC + r"from_initial_protocols$")
    nl = lib.calls_with_variant(n, r"ConnectionHandler::on_connection_event$", CE, "LocalProtocolsChange")
    ctx.floor("initial", "from_initial_protocols", ini, 1)
    ctx.floor("initial", "initial LocalProtocolsChange", nl, 1)
    for s in nl:
        ctx.guarded("initial", "initial set delivered when non-empty", s, lambda c, r, l: l == "false" and "is_empty(" in r, "!initial_protocols.is_empty()")
    # ---- add / remove / from_full_sets internals
    for fn, kind in (("add", "Added"), ("remove", "Removed")):
        b = ctx.body(SW, PC + fn + "$")
        clr = b.call_sites(r"Vec::clear$")
        ex = b.call_sites(r"Extend>::extend$")
        lib.precedes(ctx, "compute", "%s: buffer cleared before use" % fn, b, lib.bbs(clr), lib.bbs(ex), "buffer.clear() precedes buffer.extend(..)")
        want = {"add": r"^<std::vec::Vec as std::iter::Extend>::extend\(buffer, std::iter::Iterator::filter\(<std::collections::HashSet as std::iter::IntoIterator>::into_iter\(to_add\), closure:.*\[existing_protocols\]\)\)$",
                "remove": r"^<std::vec::Vec as std::iter::Extend>::extend\(buffer, std::iter::Iterator::filter_map\(<std::collections::HashSet as std::iter::IntoIterator>::into_iter\(to_remove\), closure:.*\[existing_protocols\]\)\)$"}[fn]
        ctx.ob("compute", "%s: emission = filtered input set" % fn, len(ex) == 1 and re.search(want, render(b.site_expr(ex[0]))) is not None, ex[0].loc() if ex else "",
               render(b.site_expr(ex[0]))[:200] if ex else "")
        cl = ctx.body(SW, PC + fn + r"::\{closure#0\}$")
        r0 = [render(cl.site_expr(mir.Site(cl, x[1], x[2]))) for x in cl.defs[0]]
        wantc = {"add": ["Not(std::collections::HashSet::contains(^*existing_protocols, i))"], "remove": ["std::collections::HashSet::take(^*existing_protocols, i)"]}[fn]
        ctx.ob("compute", "%s: element predicate" % fn, r0 == wantc, "%s:%d" % (cl.file, cl.line), "closure returns %s" % r0)
        res = [mir.Site(b, x[1], x[2]) for x in b.defs[0]]
        lib.check_cells(ctx, "compute", fn + " result", b, res,
                        lambda s, b=b, kind=kind: "None" if render(b.site_expr(s)) == "std::option::Option::None{}" else
                        ("Some(%s(buffer))" % kind if re.match(r"^std::option::Option::Some\{0: libp2p_swarm::handler::ProtocolsChange::%s\{0: libp2p_swarm::handler::Protocols%s::Protocols%s\{protocols: core::slice::iter\(<std::vec::Vec as std::ops::Deref>::deref\(buffer\)\)\}\}\}$" % (kind, kind, kind), render(b.site_expr(s))) else "?"),
                        [(r"^std::vec::Vec::is_empty\(buffer\)$", "empty")], {"empty": ["true", "false"]},
                        lambda a, kind=kind: "None" if a["empty"] == "true" else "Some(%s(buffer))" % kind, "%s:%d" % (b.file, b.line))
    f = ctx.body(SW, PC + r"from_full_sets$")
    c0 = ctx.body(SW, PC + r"from_full_sets::\{closure#0\}$")
    c1 = ctx.body(SW, PC + r"from_full_sets::\{closure#1\}$")
    c2 = ctx.body(SW, PC + r"from_full_sets::\{closure#2\}$")
    w = c0.stmt_sites(lambda st: st["k"] == "assign" and st["p"].get("pr") and st["p"]["l"] == 2)
    ctx.ob("compute", "from_full_sets: still-advertised names are marked visited", len(w) == 1 and render(c0.site_expr(w[0])) == "1", "%s:%d" % (c0.file, c0.line), "and_modify(|v| *v = true)")
    r1 = [render(c1.site_expr(mir.Site(c1, x[1], x[2]))) for x in c1.defs[0]]
    e1 = c1.call_sites(r"Extend>::extend$")
    ctx.ob("compute", "from_full_sets: new names are recorded and kept", r1 == ["1"] and len(e1) == 1 and "^*buffer" in render(c1.site_expr(e1[0])) and "as_ref(k.0)" in render(c1.site_expr(e1[0])),
           "%s:%d" % (c1.file, c1.line), "or_insert_with_key(|k| { buffer.extend(k); true })")
    r2 = [render(c2.site_expr(mir.Site(c2, x[1], x[2]))) for x in c2.defs[0]]
    e2 = c2.call_sites(r"Extend>::extend$")
    ok = r2 == ["arg3"] and len(e2) == 1
    ctx.ob("compute", "from_full_sets: retain keeps exactly the visited entries", ok, "%s:%d" % (c2.file, c2.line), "retain closure returns is_supported: %s" % r2)
    if e2:
        ctx.guarded("compute", "from_full_sets: dropped names recorded only for unvisited entries", e2[0], lambda c, r, l: r == "arg3" and l == "false", "!is_supported")
    # unvisited reset loop precedes marking; split index taken between marking and retain
    vm = f.call_sites(r"HashMap::values_mut$")
    ent = f.call_sites(r"HashMap::entry$")
    ret = f.call_sites(r"HashMap::retain$")
    ln = [s for s in f.call_sites(r"Vec::len$") if render(f.site_expr(s)) == "std::vec::Vec::len(buffer)"]
    sp = f.call_sites(r"slice::split_at$|split_at$")
    ctx.floor("compute", "from_full_sets anchors", vm + ent + ret + ln + sp, 5)
    lib.precedes(ctx, "compute", "from_full_sets: reset before marking", f, lib.bbs(vm), lib.bbs(ent), "all entries set to unvisited first")
    lib.precedes(ctx, "compute", "from_full_sets: split index before retain", f, lib.bbs(ln), lib.bbs(ret), "num_new_protocols = buffer.len() read before dropped names are appended")
    after = set()
    for x in ln:
        after |= f.reachable(f.succ[x.bb])
    ctx.ob("compute", "from_full_sets: marking before split index", bool(ln) and not (set(lib.bbs(ent)) & after), ln[0].loc() if ln else "",
           "no new name is recorded after the split index was read")
    for s in sp:
        r = render(f.site_expr(s))
        ctx.ob("compute", "from_full_sets: split at the number of new names", r.endswith(", std::vec::Vec::len(buffer))") or r.endswith(", num_new_protocols)"), s.loc(), r[-80:])
    pushes = f.call_sites(r"SmallVec::push$")
    kinds = sorted(v for s in pushes for v in lib.agg_variants(f.site_expr(s), r"handler::ProtocolsChange$"))
    ctx.ob("compute", "from_full_sets: emits Added then Removed", kinds == ["Added", "Removed"], msg=str(kinds))
    for s in pushes:
        r = render(f.site_expr(s))
        v = lib.agg_variants(f.site_expr(s), r"handler::ProtocolsChange$")[0]
        half = ".0)" if v == "Added" else ".1)"
        ctx.ob("compute", "from_full_sets: %s built from its half of the buffer" % v, ("split_at(" in r and ("core::slice::iter(" in r) and (half + "}}" in r or half in r)), s.loc(), r[-140:])
