"""C11 protocol-change notifications track the advertised protocol sets — path counting (K2), order (K3), origin (K5)."""
import re

from .. import lib, mir
from .. import lib_sw as S
from ..mir import render

EXPLANATION = ("Connection::poll: on the Some edge of ProtocolsChange::add the handler is notified exactly once and "
               "remote_supported_protocols is extended with exactly the drained buffer once; on the Some edge of remove it is notified once; "
               "None edges notify nothing; every element of from_full_sets' result is delivered as LocalProtocolsChange. "
               "ProtocolsChange::add emits exactly `to_add` filtered by !existing.contains; remove emits exactly what existing.take() "
               "returned (and thereby removes it); from_full_sets marks all entries unvisited, marks/inserts each advertised name, records "
               "new names before and dropped names after the split index, and retains exactly the visited entries; its no-change "
               "shortcut (empty result) is taken only when BOTH the advertised count equals the map size AND nothing new was recorded; "
               "Connection::poll iterates the computed local changes until the iterator is exhausted.  Parameters, closures and "
               "private fields are identified by type / role, not by name.")
ASSUMPTIONS = ["duplicate advertised names defeat from_full_sets' no-change shortcut (new_protocol_count == existing.len()); no structural rule "
               "separates that from a correct shortcut, so the duplicate-name clause is NOT decided (DESIGN O1)",
               "HashSet/HashMap semantics"]
SW = "libp2p_swarm"
PC = r"handler::ProtocolsChange::"


def check(ctx):
    prog = ctx.prog
    p = S.nbody(ctx, r"^libp2p_swarm::connection::Connection::poll$")
    CE = r"handler::ConnectionEvent$"
    CONN = r"^libp2p_swarm::connection::Connection$"
    F_REMOTE = S.field_by_type(prog, CONN, r"^std::collections::HashSet<stream_protocol::StreamProtocol>$")
    F_BUF = S.field_by_type(prog, CONN, r"^std::vec::Vec<stream_protocol::StreamProtocol>$")
    F_LOCAL = S.field_by_type(prog, CONN, r"^std::collections::HashMap<connection::AsStrHashEq<.*, bool>$")

    def notif(variant):
        return lib.calls_with_variant(p, r"ConnectionHandler::on_connection_event$", CE, variant)
    rpc = notif("RemoteProtocolsChange")
    lpc = notif("LocalProtocolsChange")
    ctx.floor("deliver", "RemoteProtocolsChange notifications", rpc, 2)
    hp = p.call_sites(r"ConnectionHandler::poll$")
    loop_or_ret = lib.bbs(hp) + p.return_blocks()
    ext = [s for s in p.call_sites(r"Extend>::extend$") if S.has_field(p.site_expr(s)[2][0], F_REMOTE)]
    ctx.floor("deliver", "remote_supported_protocols.extend", ext, 1)
    for fn in ("add", "remove"):
        cs = p.call_sites(PC + fn + "$")
        ctx.floor("deliver", "ProtocolsChange::%s call" % fn, cs, 1)
        for s in cs:
            some = [t for _, t in lib.switch_edges_on_site(p, s, {"Some"})]
            none = [t for _, t in lib.switch_edges_on_site(p, s, {"None"})]
            ctx.ob("deliver", "floor:%s edges" % fn, len(some) == 1 and len(none) == 1, nontrivial=False, msg="%s %s" % (some, none))
            got = lib.count_range(p, some, loop_or_ret, lib.bbs(rpc))
            ctx.ob("deliver", "%s: change => handler notified exactly once" % fn, got == (1, 1), s.loc(), "notifications on the Some edge: %s" % (got,))
            got = lib.count_range(p, none, loop_or_ret, lib.bbs(rpc))
            ctx.ob("deliver", "%s: no change => no notification" % fn, got == (0, 0), s.loc(), "notifications on the None edge: %s" % (got,))
            e = render(p.site_expr(s))
            ctx.ob("deliver", "%s operates on remote_supported_protocols + reported set" % fn,
                   ".%s, " % F_REMOTE in e and re.search(r"@ReportRemoteProtocols\.0@(Added|Removed)\.0, ", e) is not None and
                   ("@Added.0" in e) == (fn == "add"), s.loc(), e[:220])
            if fn == "add":
                got = lib.count_range(p, some, loop_or_ret, lib.bbs(ext))
                ctx.ob("deliver", "add: set extended exactly once with the emitted names", got == (1, 1), s.loc(), "extend on the Some edge: %s" % (got,))
                got = lib.count_range(p, none, loop_or_ret, lib.bbs(ext))
                ctx.ob("deliver", "add: nothing stored when nothing was emitted", got == (0, 0), s.loc(), "extend on the None edge: %s" % (got,))
                for x in ext:
                    r = render(p.site_expr(x)[2][1])
                    ctx.ob("deliver", "stored names = drained emission buffer", r.startswith("std::vec::Vec::drain(") and ".%s, " % F_BUF in r, x.loc(), r[:120])
                    # notification happens before the buffer is drained
                    lib.precedes(ctx, "deliver", "notify before drain", p, [n.bb for n in rpc if n.bb in p.reachable(some)], [x.bb],
                                 "handler sees the emitted names before the buffer is drained", x.loc())
    # the notification passes the computed change
    for s in rpc:
        r = render(p.site_expr(s))
        ctx.ob("deliver", "notification carries the computed change", re.search(r"RemoteProtocolsChange\{0: libp2p_swarm::handler::ProtocolsChange::(add|remove)\(.*\)@Some\.0\}", r) is not None, s.loc(), r[-200:])
    # local changes: every element delivered
    ff = p.call_sites(PC + r"from_full_sets$")
    ctx.floor("deliver", "from_full_sets call", ff, 1)
    for s in ff:
        e = render(p.site_expr(s))
        ctx.ob("deliver", "diff is computed against the current listen protocol", ".%s, " % F_LOCAL in e and "ConnectionHandler::listen_protocol(" in e and "UpgradeInfoSend::protocol_info(" in e, s.loc(), e[:260])
    nx = [s for s in p.call_sites(r"smallvec::IntoIter as std::iter::Iterator>::next$")]
    # the same delivery written as an iterator chain: changes.into_iter().for_each(|c| handler.on_connection_event(LocalProtocolsChange(c)))
    fe = [s for s in p.call_sites(r"^std::iter::Iterator::for_each$") if any(S.call_at(p.site_expr(s)[2][0], f_.bb) is not None for f_ in ff)]
    ctx.floor("deliver", "changes iteration", nx + fe, 1)
    lpc_cl = [x for s in fe for x in lib.calls_with_variant(S.closure_at(prog, p, s), r"ConnectionHandler::on_connection_event$", CE, "LocalProtocolsChange")]
    ctx.floor("deliver", "LocalProtocolsChange notifications", lpc + lpc_cl, 1)
    for s in nx:
        some = [t for _, t in lib.switch_edges_on_site(p, s, {"Some"})]
        got = lib.count_range(p, some, [s.bb], lib.bbs(lpc))
        ctx.ob("deliver", "every local change element is delivered once", got == (1, 1), s.loc(), "LocalProtocolsChange per element: %s" % (got,))
    for s in fe:
        cl = S.closure_at(prog, p, s)
        ctx.use(cl)
        inner = lib.calls_with_variant(cl, r"ConnectionHandler::on_connection_event$", CE, "LocalProtocolsChange")
        got = lib.count_range(cl, [0], cl.return_blocks(), lib.bbs(inner))
        ok = got == (1, 1) and all("LocalProtocolsChange{0: p%d}" % cl.argc in render(cl.site_expr(x)) for x in inner)
        ctx.ob("deliver", "every local change element is delivered once", ok, s.loc(), "LocalProtocolsChange per element (for_each closure): %s" % (got,))
    # the computed local changes are iterated until exhausted: every path from the computation back to the handler poll / a return
    # passes the `None` edge of the iterator (or the explicit "no changes" edge)
    for f_ in ff:
        mine = [s for s in nx if any(S.call_at(x, f_.bb) is not None for x in [p.site_expr(s)] + [d for l in S.locals_in(p.site_expr(s)) for _, d in S.defs_exprs(p, l)])]
        mine_fe = [s for s in fe if S.call_at(p.site_expr(s)[2][0], f_.bb) is not None]
        ctx.floor("deliver", "iteration over the computed changes", mine + mine_fe, 1)
        if mine_fe and not mine:
            ends_ = [b for b in loop_or_ret if b in p.reachable(p.succ[f_.bb])]
            empt = S.edges_of(p, lambda c, r: c[0] == "call" and re.search(r"SmallVec::is_empty$", mir.strip_generics(c[1])) is not None and S.call_at(c, f_.bb) is not None, {"true"})
            okf = bool(ends_) and not (set(ends_) & p.reachable(p.succ[f_.bb], blocked_nodes=lib.bbs(mine_fe), blocked_edges=empt))
            ctx.ob("deliver", "all computed local changes are delivered (iteration runs to exhaustion)", okf, f_.loc(), "for_each over the computed changes on every path")
            continue
        done = set()
        for s in mine:
            done |= lib.switch_edges_on_site(p, s, {"None"})
        done |= S.edges_of(p, lambda c, r: c[0] == "call" and re.search(r"SmallVec::is_empty$", mir.strip_generics(c[1])) is not None and S.call_at(c, f_.bb) is not None, {"true"})
        ends = [b for b in loop_or_ret if b in p.reachable(p.succ[f_.bb])]
        bad = [b for b in ends if not p.must_pass_edges(b, done, start=f_.bb)]
        ctx.ob("deliver", "all computed local changes are delivered (iteration runs to exhaustion)", bool(done) and bool(ends) and not bad, f_.loc(),
               "a path leaves the delivery of the computed changes before the iterator returned None" if bad else "every path passes the iterator's None edge")
    for s in lpc:
        r = render(p.site_expr(s))
        ctx.ob("deliver", "delivered element is the iterated change", "LocalProtocolsChange{0: <smallvec::IntoIter as std::iter::Iterator>::next(" in r and "@Some.0}" in r, s.loc(), r[-160:])
    # initial set in Connection::new
    n = S.nbody(ctx, r"^libp2p_swarm::connection::Connection::new$")
    ini = n.call_sites(PC + r"from_initial_protocols$")
    nl = lib.calls_with_variant(n, r"ConnectionHandler::on_connection_event$", CE, "LocalProtocolsChange")
    ctx.floor("initial", "from_initial_protocols", ini, 1)
    ctx.floor("initial", "initial LocalProtocolsChange", nl, 1)
    for s in nl:
        ctx.guarded("initial", "initial set delivered when non-empty", s, lambda c, r, l: l == "false" and "is_empty(" in r, "!initial_protocols.is_empty()")
    # ---- add / remove / from_full_sets internals
    for fn, kind in (("add", "Added"), ("remove", "Removed")):
        b = S.nbody(ctx, PC + fn + "$")
        i_ex = S.param_of_type(b, r"^&(mut )?std::collections::HashSet<stream_protocol::StreamProtocol>$")
        i_in = S.param_of_type(b, r"^std::collections::HashSet<stream_protocol::StreamProtocol>$")
        i_buf = S.param_of_type(b, r"^&('\w+ )?mut std::vec::Vec<stream_protocol::StreamProtocol>$")
        clr = b.call_sites(r"Vec::clear$")
        ex = b.call_sites(r"Extend>::extend$")
        lib.precedes(ctx, "compute", "%s: buffer cleared before use" % fn, b, lib.bbs(clr), lib.bbs(ex), "buffer.clear() precedes buffer.extend(..)")
        want = {"add": r"^<std::vec::Vec as std::iter::Extend>::extend\(p%d, std::iter::Iterator::filter\(<std::collections::HashSet as std::iter::IntoIterator>::into_iter\(p%d\), closure:.*\[p%d\]\)\)$" % (i_buf, i_in, i_ex),
                "remove": r"^<std::vec::Vec as std::iter::Extend>::extend\(p%d, std::iter::Iterator::filter_map\(<std::collections::HashSet as std::iter::IntoIterator>::into_iter\(p%d\), closure:.*\[p%d\]\)\)$" % (i_buf, i_in, i_ex)}[fn]
        ctx.ob("compute", "%s: emission = filtered input set" % fn, len(ex) == 1 and re.search(want, render(b.site_expr(ex[0]))) is not None, ex[0].loc() if ex else "",
               render(b.site_expr(ex[0]))[:200] if ex else "")
        if not ex:
            continue
        cl = S.closure_at(prog, b, ex[0])
        ctx.use(cl)
        r0 = [render(x) for x in S.ret_exprs(cl)]
        wantc = {"add": [r"^Not\(std::collections::HashSet::contains\(\^\*?u0, p2\)\)$"], "remove": [r"^std::collections::HashSet::take\(\^\*?u0, p2\)$"]}[fn]
        ctx.ob("compute", "%s: element predicate" % fn, len(r0) == 1 and re.match(wantc[0], r0[0]) is not None, "%s:%d" % (cl.file, cl.line), "closure returns %s" % r0)
        res = [mir.Site(b, x[1], x[2]) for x in b.defs[0]]
        lib.check_cells(ctx, "compute", fn + " result", b, res,
                        lambda s, b=b, kind=kind: "None" if render(b.site_expr(s)) == "std::option::Option::None{}" else
                        ("Some(%s(buffer))" % kind if re.match(r"^std::option::Option::Some\{0: libp2p_swarm::handler::ProtocolsChange::%s\{0: libp2p_swarm::handler::Protocols%s::Protocols%s\{\w+: core::slice::iter\(<std::vec::Vec as std::ops::Deref>::deref\(p%d\)\)\}\}\}$" % (kind, kind, kind, i_buf), render(b.site_expr(s))) else "?"),
                        [(r"^std::vec::Vec::is_empty\(p%d\)$" % i_buf, "empty")], {"empty": ["true", "false"]},
                        lambda a, kind=kind: "None" if a["empty"] == "true" else "Some(%s(buffer))" % kind, "%s:%d" % (b.file, b.line))
    f = S.nbody(ctx, PC + r"from_full_sets$")
    i_map = S.param_of_type(f, r"^&mut std::collections::HashMap<connection::AsStrHashEq<T>, bool>$")
    i_buf = S.param_of_type(f, r"^&('\w+ )?mut std::vec::Vec<stream_protocol::StreamProtocol>$")
    am_s = f.call_sites(r"hash_map::Entry::and_modify$")
    oi_s = f.call_sites(r"hash_map::Entry::or_insert_with_key$|hash_map::Entry::or_insert_with$")
    ret = f.call_sites(r"HashMap::retain$")
    ctx.floor("compute", "from_full_sets closures (and_modify / or_insert_with_key / retain)", am_s + oi_s + ret, 3)
    if not (am_s and oi_s and ret):
        return
    c0 = S.closure_at(prog, f, am_s[0])
    c1 = S.closure_at(prog, f, f.site_expr(oi_s[0])[2][1])
    c2 = S.closure_at(prog, f, ret[0])
    for c in (c0, c1, c2):
        ctx.use(c)
    w = c0.stmt_sites(lambda st: st["k"] == "assign" and st["p"].get("pr") and st["p"]["l"] == 2)
    ctx.ob("compute", "from_full_sets: still-advertised names are marked visited", len(w) == 1 and render(c0.site_expr(w[0])) == "1", "%s:%d" % (c0.file, c0.line), "and_modify(|v| *v = true)")
    r1 = [render(x) for x in S.ret_exprs(c1)]
    e1 = c1.call_sites(r"Extend>::extend$")
    _, caps1 = S.closure_captures(f, f.site_expr(oi_s[0])[2][1])
    ok = r1 == ["1"] and len(e1) == 1 and len(caps1) == 1 and render(caps1[0]) == "p%d" % i_buf
    if ok:
        ee = c1.site_expr(e1[0])
        ok = re.match(r"^\^\*?u0$", render(ee[2][0])) is not None and "as_ref(p2.0)" in render(ee[2][1])
    ctx.ob("compute", "from_full_sets: new names are recorded and kept", ok, "%s:%d" % (c1.file, c1.line), "or_insert_with_key(|k| { buffer.extend(k); true })")
    r2 = S.ret_exprs(c2)
    e2 = c2.call_sites(r"Extend>::extend$")
    _, caps2 = S.closure_captures(f, f.site_expr(ret[0]))
    flag = c2.argc         # retain's closure is |key, value|: the value (visited flag) is its last parameter
    ok = len(r2) == 1 and r2[0][0] == "arg" and r2[0][1] == flag and len(e2) == 1 and len(caps2) == 1 and render(caps2[0]) == "p%d" % i_buf
    ctx.ob("compute", "from_full_sets: retain keeps exactly the visited entries", ok, "%s:%d" % (c2.file, c2.line), "retain closure returns is_supported: %s" % [render(x) for x in r2])
    if e2:
        ctx.guarded("compute", "from_full_sets: dropped names recorded only for unvisited entries", e2[0],
                    lambda c, r, l: S.unnot(c, l)[0][0] == "arg" and S.unnot(c, l)[0][1] == flag and S.unnot(c, l)[1] == "false", "!is_supported")
        ee = c2.site_expr(e2[0])
        ctx.ob("compute", "from_full_sets: dropped names go to the emission buffer", re.match(r"^\^\*?u0$", render(ee[2][0])) is not None and "as_ref(p2.0)" in render(ee[2][1]), e2[0].loc(), render(ee)[:160])
    # both closures feed the map / the retain runs on the map
    ctx.ob("compute", "from_full_sets: marking and retain operate on the existing-protocols map",
           render(f.site_expr(ret[0])[2][0]) == "p%d" % i_map and all(render(c[2][0]) == "p%d" % i_map for c in mir.calls_in(f.site_expr(oi_s[0]), r"HashMap::entry$")),
           ret[0].loc(), "entry()/retain() on parameter %d" % i_map)
    # unvisited reset loop precedes marking; split index taken between marking and retain
    vm = f.call_sites(r"HashMap::values_mut$")
    ent = f.call_sites(r"HashMap::entry$")
    ln = [s for s in f.call_sites(r"Vec::len$") if render(f.site_expr(s)) == "std::vec::Vec::len(p%d)" % i_buf]
    sp = f.call_sites(r"slice::split_at$|split_at$")
    ctx.floor("compute", "from_full_sets anchors", vm + ent + ret + ln + sp, 5)
    lib.precedes(ctx, "compute", "from_full_sets: reset before marking", f, lib.bbs(vm), lib.bbs(ent), "all entries set to unvisited first")
    # the split index is a buffer length read before the dropped names are appended
    idx_calls = []
    for s in sp:
        a = f.site_expr(s)[2][1]
        cs = [x for x in ln if S.call_at(a, x.bb) is not None]
        ctx.ob("compute", "from_full_sets: split at the number of new names", len(cs) == 1 and a[0] == "call" and a[3] == cs[0].bb, s.loc(), render(f.site_expr(s))[-80:])
        idx_calls += cs
    lib.precedes(ctx, "compute", "from_full_sets: split index before retain", f, lib.bbs(idx_calls), lib.bbs(ret), "num_new_protocols = buffer.len() read before dropped names are appended")
    ctx.ob("compute", "from_full_sets: the split index is read once, not re-read after retain", bool(idx_calls) and not any(x.bb in f.reachable(f.succ[r_.bb]) for x in idx_calls for r_ in ret),
           idx_calls[0].loc() if idx_calls else "", "buffer.len() used for the split is not evaluated after retain")
    after = set()
    for x in idx_calls:
        after |= f.reachable(f.succ[x.bb])
    ctx.ob("compute", "from_full_sets: marking before split index", bool(idx_calls) and not (set(lib.bbs(ent)) & after), idx_calls[0].loc() if idx_calls else "",
           "no new name is recorded after the split index was read")
    pushes = f.call_sites(r"SmallVec::push$")
    kinds = sorted(v for s in pushes for v in lib.agg_variants(f.site_expr(s), r"handler::ProtocolsChange$"))
    ctx.ob("compute", "from_full_sets: emits Added then Removed", kinds == ["Added", "Removed"], msg=str(kinds))
    for s in pushes:
        r = render(f.site_expr(s))
        v = lib.agg_variants(f.site_expr(s), r"handler::ProtocolsChange$")[0]
        half = ".0)" if v == "Added" else ".1)"
        ctx.ob("compute", "from_full_sets: %s built from its half of the buffer" % v, ("split_at(" in r and ("core::slice::iter(" in r) and (half + "}}" in r or half in r)), s.loc(), r[-140:])
    # ---- the no-change shortcut: an empty result without running the removal pass requires BOTH "as many advertised names as
    # entries" AND "no new name recorded"
    empties = [s for s in S.ret_sites(f) if S.is_call(f.site_expr(s), r"smallvec::SmallVec::new$")]
    ctx.floor("compute", "from_full_sets no-change shortcut", empties, 1)

    def count_eq(c, r, l):
        c, l = S.unnot(c, l)
        if c[0] != "bin" or c[1] not in ("Eq", "Ne"):
            return False
        sides = [c[2], c[3]]
        has_len = any(S.is_call(x, r"HashMap::len$") and render(x[2][0]) == "p%d" % i_map for x in sides)
        has_cnt = any(x[0] == "local" for x in sides)
        return has_len and has_cnt and l == ("true" if c[1] == "Eq" else "false")

    def none_new(c, r, l):
        c, l = S.unnot(c, l)
        if S.is_call(c, r"Vec::is_empty$") and render(c[2][0]) == "p%d" % i_buf:
            return l == "true"
        if c[0] == "bin" and c[1] in ("Eq", "Ne") and any(S.is_call(x, r"Vec::len$") and render(x[2][0]) == "p%d" % i_buf for x in (c[2], c[3])) and \
                any(x[0] == "const" and x[1] == 0 for x in (c[2], c[3])):
            return l == ("true" if c[1] == "Eq" else "false")
        return False
    for s in empties:
        if s.bb in f.reachable(lib.bbs(ret)):
            continue        # an empty result built after the removal pass is not a shortcut
        ctx.guarded("compute", "from_full_sets: shortcut requires count == number of entries", s, count_eq, "new_protocol_count == existing_protocols.len()")
        ctx.guarded("compute", "from_full_sets: shortcut requires that no new name was recorded", s, none_new, "buffer.is_empty()")
    # ---- the counter compared in the shortcut counts exactly the advertised names that were visited/inserted: in every iteration
    # of the loop over the advertised names it is incremented exactly once and the map entry is visited exactly once
    cnts = set()
    for bi, c_, _ in S.switch_blocks(f, lambda c, r: count_eq(c, r, "true") or count_eq(c, r, "false")):
        c0_, _ = S.unnot(c_, "true")
        cnts |= {x[1] for x in (c0_[2], c0_[3]) if x[0] == "local"}
    ctx.ob("compute", "floor:from_full_sets advertised-name counter", len(cnts) == 1, nontrivial=False, msg="locals compared with existing_protocols.len(): %d" % len(cnts))
    i_new = [i for i in range(1, f.argc + 1) if i not in (i_map, i_buf)]
    loops = [s for s in f.call_sites(r"Iterator>::next$|Iterator::next$")
             if i_new and any("into_iter(p%d)" % i_new[0] in render(x) for x in [f.site_expr(s)] + [d for l in S.locals_in(f.site_expr(s)) for _, d in S.defs_exprs(f, l)])]
    ctx.floor("compute", "from_full_sets loop over the advertised names", loops, 1, exact=True)
    if len(cnts) == 1 and len(loops) == 1:
        L = next(iter(cnts))
        lp = loops[0]
        some = S.some_targets(f, lp)
        reg = S.loop_region(f, lp.bb, some)
        incs, other_w = [], []
        for w, x in S.defs_exprs(f, L):
            parts = S.add_leaves(x)
            is_inc = len(parts) == 2 and any(y[0] == "local" and y[1] == L for y in parts) and any(y[0] == "const" and y[1] == 1 for y in parts)
            if w.bb in reg:
                (incs if is_inc else other_w).append(w)
            else:
                ctx.ob("compute", "from_full_sets: the counter starts at zero", x[0] == "const" and x[1] == 0, w.loc(), "counter initialised with %s" % render(x))
        ctx.ob("compute", "from_full_sets: the counter only counts up by one", not other_w and bool(incs), incs[0].loc() if incs else "", "%d increment(s), %d other write(s) inside the loop" % (len(incs), len(other_w)))
        got_i = lib.count_range(f, some, [lp.bb], lib.bbs(incs))
        got_e = lib.count_range(f, some, [lp.bb], [x.bb for x in ent if x.bb in reg])
        ctx.ob("compute", "from_full_sets: every advertised name is counted exactly once", got_i == (1, 1), lp.loc(), "counter increments per advertised name: %s" % (got_i,))
        ctx.ob("compute", "from_full_sets: every advertised name is visited/inserted exactly once", got_e == (1, 1), lp.loc(), "existing_protocols.entry(..) per advertised name: %s" % (got_e,))
        # no way out of the loop other than exhaustion of the advertised names
        none_e = lib.switch_edges_on_site(f, lp, {"None"})
        after_loop = f.reachable([t_ for _, t_ in none_e])
        leak = sorted(reg & after_loop)
        ctx.ob("compute", "from_full_sets: the loop over the advertised names is left only when they are exhausted", not leak, lp.loc(), "code after the loop that is reachable from the loop body without passing the loop head: %d block(s)" % len(leak))
