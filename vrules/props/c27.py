"""C27 gossipsub delivers each message once and never echoes it — guards (K1), path counting (K2), order (K3), origin (K5), who (K4) over handle_received_message, forward_msg, publish."""
import re

from .. import lib, mir
from .. import lib_gs as gs
from ..mir import render, strip_generics

EXPLANATION = ("Node-local necessary conditions. handle_received_message: Event::Message is constructed only here, at most once per call, and "
               "only after message_is_valid == true, duplicate_cache.insert(id) == true and mesh.contains_key(topic) == true; the id put in "
               "the duplicate cache, the id delivered, the id cached and the id forwarded are the same Config::message_id(transformed message); "
               "on the duplicate edge and on the invalid edge nothing is delivered, cached or forwarded; forwarding passes "
               "Some(propagation_source). DuplicateCache::insert reports `true` only on the Vacant edge (and stores there). forward_msg: the "
               "recipient set starts empty and is filled only by two inserts, each reached (within its loop iteration) only via "
               "`Some(peer) != propagation_source`, `!originating_peers.contains(peer)` and `Some(peer) != message.source.as_ref()` for the "
               "inserted peer; RpcOut::Publish is sent only to elements of that set, carrying the given id and message; both callers pass "
               "Some(their propagation_source) and the validation path passes the duplicate senders recorded by the message cache. publish: "
               "an id already in the duplicate cache returns Err(Duplicate) without sending; every send is dominated by "
               "duplicate_cache.insert(id) of the id sent (so the echo is dropped by the receive path), publish never constructs "
               "Event::Message, recipients come from connected peers through filter_publish_candidates. RpcOut::Publish is built only in "
               "publish, forward_msg and handle_iwant.")
ASSUMPTIONS = ["network-level exactly-once across nodes, heartbeats and gossip (IHAVE/IWANT repair) is not decided; handle_iwant answers the "
               "requesting peer and is not constrained",
               "duplicate-cache lifetime (TimeCache expiry, C33) and message-id function supplied by the application",
               "message_is_valid's own checks (blacklist, self-origin, signature policy) belong to C30",
               "the local peer is never a key of connected_peers (swarm does not connect a node to itself, C05)"]
TECHNIQUE = "static analysis of rustc MIR facts: dominance guards, path counting, def-use origin of ids and recipients"

G = gs.G
B = "libp2p_gossipsub::behaviour::Behaviour::"
CONFIGS = [{"name": "gossipsub-features", "packages": ["libp2p-gossipsub"], "features": "metrics,partial-messages"}]

SELFTEST = [
    {"mutation": "handle_received_message: `if !self.duplicate_cache.insert(..)` -> `if self.duplicate_cache.insert(..)`", "caught_by": "recv/delivered only for a first-seen id"},
    {"mutation": "handle_received_message: duplicate branch falls through (return deleted)", "caught_by": "recv/duplicate => nothing delivered, cached or forwarded"},
    {"mutation": "handle_received_message: forward_msg(.., None, ..)", "caught_by": "recv/forwarding excludes the sender"},
    {"mutation": "handle_received_message: mesh.contains_key guard inverted", "caught_by": "recv/delivered only when subscribed to the topic"},
    {"mutation": "forward_msg mesh loop: `Some(peer_id) != propagation_source` deleted", "caught_by": "fwd/mesh recipients: never the peer it came from"},
    {"mutation": "forward_msg explicit/floodsub loop: `!originating_peers.contains(peer_id)` -> `originating_peers.contains(peer_id)`", "caught_by": "fwd/direct+floodsub recipients: never a peer that already sent it"},
    {"mutation": "forward_msg mesh loop: `!= message.source.as_ref()` -> `==`", "caught_by": "fwd/mesh recipients: never the message source"},
    {"mutation": "forward_msg: send loop iterates self.connected_peers.keys()", "caught_by": "fwd/Publish goes only to the filtered recipients"},
    {"mutation": "publish: duplicate_cache.insert moved after the send loop", "caught_by": "pub/own id is in the duplicate cache before anything is sent"},
    {"mutation": "publish: `if self.duplicate_cache.contains(&msg_id)` -> `!contains`", "caught_by": "pub/already published id => Err(Duplicate), nothing sent"},
    {"mutation": "DuplicateCache::insert: returns true in the else branch", "caught_by": "cache/insert reports true only for a new key"},
    {"mutation": "report_message_validation_result: forward_msg(.., HashSet::new())", "caught_by": "fwd/validation path passes the recorded duplicate senders"},
    {"mutation": "seeded C27: mcache.observe_duplicate moved inside `if let PeerScoreState::Active`", "caught_by": "recv/a duplicate's sender is always recorded for the pending forward"},
    {"mutation": "NEUTRAL gs/02: duplicate branch extracted into a private helper on_duplicate_message", "caught_by": "(silent, the helper is summarised)"},
]

# one-edit source variants for the thorough-tier sensitivity self-test (vrules/selftest.py); each must be reported
MUTANTS = [
    {"name": 'duplicate check inverted', "file": 'protocols/gossipsub/src/behaviour.rs',
     "find": '        if !self.duplicate_cache.insert(msg_id.clone()) {',
     "replace": '        if self.duplicate_cache.insert(msg_id.clone()) {',
     "expect": 'recv/', "why": 'a first-seen message is dropped and every duplicate is delivered again'},
    {"name": 'forward without excluding the sender', "file": 'protocols/gossipsub/src/behaviour.rs',
     "find": '                raw_message,\n                Some(propagation_source),\n                HashSet::new(),',
     "replace": '                raw_message,\n                None,\n                HashSet::new(),',
     "expect": 'forwarding excludes the sender|passes Some', "why": 'message is sent back to the peer it came from'},
    {"name": 'publish checks the duplicate cache the wrong way round', "file": 'protocols/gossipsub/src/behaviour.rs',
     "find": '        if self.duplicate_cache.contains(&msg_id) {',
     "replace": '        if !self.duplicate_cache.contains(&msg_id) {',
     "expect": 'pub/', "why": 'fresh messages are refused, repeated ones re-sent'},
    {"name": 'DuplicateCache::insert always reports new', "file": 'protocols/gossipsub/src/time_cache.rs',
     "find": '            true\n        } else {\n            false\n        }',
     "replace": '            true\n        } else {\n            true\n        }',
     "expect": 'cache/insert reports true only for a new key', "why": 'duplicates are delivered again'},
]


def _loc(b):
    return "%s:%d" % (b.file, b.line)


def event_pushes(body, variant="Message"):
    out = []
    for s in body.call_sites(r"VecDeque::push_back$"):
        e = body.site_expr(s)
        if render(e[2][0]) == "self.events" and variant in lib.agg_variants(e[2][1], r"behaviour::Event$"):
            out.append(s)
    return out


def publish_sends(body):
    return lib.calls_with_variant(body, gs.BEH + r"send_message$", r"types::RpcOut$", "Publish")


def rpc_field(body, site, field):
    e = body.site_expr(site)
    for x in mir.walk(e):
        if x[0] == "agg" and x[1] == "adt" and x[3] == "Publish":
            for f, v in x[4]:
                if f == field:
                    return v
    return None


def id_calls(e):
    return {c[3] for c in gs.calls(e, r"config::Config::message_id$")}


def check(ctx):
    prog = ctx.prog
    # =================================================================== receive path
    h = ctx.body(G, gs.BEH + r"handle_received_message$")
    h_src = gs.arg_of_type(h, r"^&libp2p_identity::PeerId$")      # the peer the message was received from (by type, not name)
    rets = h.return_blocks()
    ev = event_pushes(h)
    ctx.floor("recv", "Event::Message push in handle_received_message", ev, 1)
    who = sorted({b.npath for b in prog.bodies(G) if b.agg_sites(r"behaviour::Event$", "Message")})
    ctx.ob("recv", "Event::Message is constructed only by handle_received_message", who == [h.npath], msg=str(who))
    lib.expect_count(ctx, "recv", "at most one delivery per received message", h, [0], rets, lib.bbs(ev), (0, 1), "Event::Message push")
    # direct calls, or a crate-local wrapper that returns exactly the call's result (one level)
    _d = [(s, a) for s, a in gs.wrapped_calls(h, r"time_cache::DuplicateCache::insert$", "value") if render(a[0]) == "self.duplicate_cache"]
    dins = [s for s, _ in _d]
    din_id = {s.key(): a[1] for s, a in _d}
    ctx.floor("recv", "duplicate_cache.insert in handle_received_message", dins, 1)
    valid = [s for s in h.call_sites(gs.BEH + r"message_is_valid$")]
    ctx.floor("recv", "message_is_valid call", valid, 1)
    fw = h.call_sites(gs.BEH + r"forward_msg$")
    ctx.floor("recv", "forward_msg call in handle_received_message", fw, 1)
    put = [s for s in h.call_sites(r"mcache::MessageCache::put$")]
    ins_true = set()
    ins_false = set()
    for s in dins:
        ins_true |= lib.switch_edges_on_site(h, s, {"true"})
        ins_false |= lib.switch_edges_on_site(h, s, {"false"})
    val_true = set()
    val_false = set()
    for s in valid:
        val_true |= lib.switch_edges_on_site(h, s, {"true"})
        val_false |= lib.switch_edges_on_site(h, s, {"false"})
    ctx.ob("recv", "floor:decision edges", len(ins_true) == 1 and len(ins_false) == 1 and len(val_true) == 1 and len(val_false) == 1, nontrivial=False,
           msg="insert %s/%s valid %s/%s" % (sorted(ins_true), sorted(ins_false), sorted(val_true), sorted(val_false)))
    for s in ev:
        ctx.ob("recv", "delivered only for a first-seen id", bool(ins_true) and h.must_pass_edges(s.bb, ins_true), s.loc(), "Event::Message dominated by duplicate_cache.insert(id) == true")
        ctx.ob("recv", "delivered only for a valid message", bool(val_true) and h.must_pass_edges(s.bb, val_true), s.loc(), "Event::Message dominated by message_is_valid == true")
        e = h.site_expr(s)
        topic_guard = gs.guard(h, lambda c, r, l: l == "true" and c[0] == "call" and re.search(r"HashMap::contains_key$", strip_generics(c[1])) is not None
                                    and render(c[2][0]) == "self.mesh" and render(c[2][1]).endswith("@Ok.0.topic"))
        ctx.ob("recv", "delivered only when subscribed to the topic", bool(topic_guard) and h.must_pass_edges(s.bb, topic_guard), s.loc(), "Event::Message dominated by mesh.contains_key(message.topic) == true")
    # id consistency
    idsrc = set()
    for s in dins:
        idsrc |= id_calls(gs.expand(h, din_id[s.key()]))
    ok = len(idsrc) == 1
    parts = {"duplicate_cache.insert": sorted(idsrc)}
    for s in ev:
        for x in mir.walk(h.site_expr(s)):
            if x[0] == "agg" and x[3] == "Message":
                for f, v in x[4]:
                    if f == "message_id":
                        parts["Event::Message.message_id"] = sorted(id_calls(v))
                        ok = ok and id_calls(v) == idsrc
                    if f == "propagation_source":
                        parts["Event.propagation_source"] = render(v)
                        ok = ok and v[0] == "arg"
    for s in fw:
        parts["forward_msg id"] = sorted(id_calls(h.site_expr(s)[2][1]))
        ok = ok and id_calls(h.site_expr(s)[2][1]) == idsrc
    for s in put:
        parts["mcache.put id"] = sorted(id_calls(h.site_expr(s)[2][1]))
        ok = ok and id_calls(h.site_expr(s)[2][1]) == idsrc
    for s in valid:
        ok = ok and id_calls(h.site_expr(s)[2][1]) == idsrc
    ctx.ob("recv", "one message id is checked, delivered, cached and forwarded", ok, dins[0].loc() if dins else _loc(h), str(parts))
    for bb in idsrc:
        c = h.site_expr(mir.Site(h, bb))
        ctx.ob("recv", "the id is computed from the transformed message", render(c[2][0]) == "self.config" and gs.has_call(c[2][1], r"DataTransform::inbound_transform$") and render(c[2][1]).endswith("@Ok.0"),
               "%s:%d" % (h.file, h.blocks[bb]["term"].get("l", 0)), render(c)[:200])
    # duplicate / invalid edges
    effects = lib.bbs(ev) + lib.bbs(fw) + lib.bbs(put)
    for name, edges, extra in (("duplicate", ins_false, []), ("invalid", val_false, lib.bbs(dins))):
        r_ = h.reachable(gs.edge_targets(edges)) if edges else set(effects)
        hit = sorted(set(effects + extra) & r_)
        ctx.ob("recv", "%s => nothing delivered, cached or forwarded" % name, bool(edges) and not hit, _loc(h),
               "from the %s edge no Event::Message / mcache.put / forward_msg%s is reachable%s" % (name, " / duplicate_cache.insert" if extra else "", "" if not hit else " — reachable blocks %s" % hit))
    # the sender of a duplicate is recorded in the message cache on *every* path of the duplicate edge (not only when scoring is
    # active): report_message_validation_result hands exactly these peers to forward_msg as `originating_peers`, which is what keeps a
    # message whose validation is pending from being sent back to a peer it was received from.  A private helper that performs the
    # call on all of its paths counts as the call (DESIGN section 3, wrappers).
    OBS = r"mcache::MessageCache::observe_duplicate$"
    markers = []          # (site in h, id expr, source expr)
    for s in h.call_sites(OBS):
        e = h.site_expr(s)
        markers.append((s, e[2][1], e[2][2]))
    by_path = {b.npath: b for b in prog.bodies(G)}
    for s in h.call_sites():
        cal = by_path.get(strip_generics(h.call_name(s.term)))
        if cal is None or cal is h or cal.kind == "closure":
            continue
        inner = cal.call_sites(OBS)
        if not inner or lib.count_range(cal, [0], cal.return_blocks(), lib.bbs(inner)) != (1, 1):
            continue
        ie = cal.site_expr(inner[0])
        ce = h.site_expr(s)
        if ie[2][1][0] == "arg" and ie[2][2][0] == "arg" and render(ie[2][0]) == "self.mcache":
            markers.append((s, ce[2][ie[2][1][1] - 1], ce[2][ie[2][2][1] - 1]))
            ctx.use(cal)
    got = lib.count_range(h, gs.edge_targets(ins_false), rets, lib.bbs([m[0] for m in markers])) if ins_false else None
    ctx.ob("recv", "a duplicate's sender is always recorded for the pending forward", got == (1, 1), markers[0][0].loc() if markers else _loc(h),
           "mcache.observe_duplicate(id, sender) on every path of the duplicate edge (independent of scoring): %s" % (got,))
    for s, ide, srce in markers:
        ok = id_calls(gs.expand(h, ide)) == idsrc and gs.is_arg(srce, h_src)
        ctx.ob("recv", "the recorded duplicate is this id from this sender", ok, s.loc(), "observe_duplicate(%s, %s)" % (render(ide)[-60:], render(srce)))
    ctx.floor("recv", "duplicate-sender recording sites", markers, 1)
    for s in fw:
        e = h.site_expr(s)
        ctx.ob("recv", "forwarding only for a first-seen id", bool(ins_true) and h.must_pass_edges(s.bb, ins_true), s.loc(), "forward_msg dominated by duplicate_cache.insert(id) == true")
        a = e[2][3]
        ok = a[0] == "agg" and a[3] == "Some" and gs.is_arg(a[4][0][1], h_src)
        ctx.ob("recv", "forwarding excludes the sender", ok, s.loc(), "forward_msg(.., propagation_source = %s, ..)" % render(a)[:80])
    lib.expect_count(ctx, "recv", "forwarded at most once", h, [0], rets, lib.bbs(fw), (0, 1), "forward_msg call")
    for s in ev:
        for f in fw:
            ctx.ob("recv", "forwarding follows the delivery decision", h.must_pass_nodes([0], [f.bb], [s.bb]), f.loc(), "forward_msg only after Event::Message was queued (subscribed topic)")

    # =================================================================== DuplicateCache::insert
    di = ctx.body(G, r"time_cache::DuplicateCache::insert$")
    vac = lib.switch_edges_on(di, r"^discr\(libp2p_gossipsub::time_cache::TimeCache::entry\(self\.0, key\)\)$", {"Vacant"})
    ctx.ob("cache", "floor:Vacant edge", len(vac) == 1, nontrivial=False, msg=str(sorted(vac)))
    okc = bool(vac)
    n_true = 0
    for site, e in gs.ret_exprs(di):
        if e[0] == "const" and e[1] == 1:
            n_true += 1
            okc = okc and di.must_pass_edges(site.bb, vac)
        elif not (e[0] == "const" and e[1] == 0):
            okc = False
    ctx.ob("cache", "insert reports true only for a new key", okc and n_true >= 1, _loc(di), "`true` results: %d, each dominated by Entry::Vacant" % n_true)
    vi = di.call_sites(r"time_cache::VacantEntry::insert$")
    got = lib.count_range(di, gs.edge_targets(vac), di.return_blocks(), lib.bbs(vi)) if vac else None
    ctx.ob("cache", "a new key is stored", got == (1, 1), _loc(di), "VacantEntry::insert on the Vacant edge: %s" % (got,))
    dc = ctx.body(G, r"time_cache::DuplicateCache::contains$")
    rr = [render(x) for _, x in gs.ret_exprs(dc)]
    ctx.ob("cache", "contains <=> key present", rr == ["libp2p_gossipsub::time_cache::TimeCache::contains_key(self.0, key)"], _loc(dc), str(rr))

    # =================================================================== forward_msg
    f = ctx.body(G, gs.BEH + r"forward_msg$")
    ps_arg, orig_arg = gs.arg_of_type(f, r"^std::option::Option<&libp2p_identity::PeerId>$"), gs.arg_of_type(f, r"^std::collections::HashSet<libp2p_identity::PeerId>$")
    msg_arg, id_arg = gs.arg_of_type(f, r"^types::RawMessage$"), gs.arg_of_type(f, r"^&types::MessageId$")
    ctx.ob("fwd", "floor:forward_msg parameters", None not in (ps_arg, orig_arg, msg_arg, id_arg), nontrivial=False, msg=str((id_arg, msg_arg, ps_arg, orig_arg)))
    rec_l = [s for s in f.call_sites(r"HashSet::insert$") if f.site_expr(s)[2][0][0] == "local"]
    rl = {f.site_expr(s)[2][0][1] for s in rec_l}
    ctx.floor("fwd", "recipient_peers.insert sites", rec_l, 2)
    ctx.ob("fwd", "one recipient set", len(rl) == 1, msg=str(rl))
    rloc = next(iter(rl)) if rl else -1
    ie = f.init_expr(rloc) if rl else ("unknown", "?")
    ctx.ob("fwd", "recipient set starts empty", ie[0] == "call" and re.search(r"HashSet::new$", strip_generics(ie[1])) is not None, msg=render(ie)[:80])
    muts = []
    for s in f.call_sites(r"(HashSet|Extend>|hash_set::\w+)::(insert|extend|replace|get_or_insert\w*|append|union|symmetric_difference|drain|retain|remove|clear|take)$"):
        a0 = f.site_expr(s)[2][0]
        if a0[0] == "local" and a0[1] == rloc:
            muts.append(s)
    ctx.ob("fwd", "recipient set is written only by the two guarded inserts", sorted(x.bb for x in muts) == sorted(x.bb for x in rec_l), msg="%d mutation site(s)" % len(muts))
    labels = {0: "direct+floodsub recipients", 1: "mesh recipients"}
    for i, s in enumerate(sorted(rec_l, key=lambda x: x.line)):
        tag = labels.get(i, "recipients#%d" % i)
        e = f.site_expr(s)
        peer = e[2][1]
        head = gs.next_call_bb(peer)
        pr = render(peer)
        ctx.ob("fwd", "floor:%s loop" % tag, head is not None, nontrivial=False, msg=str(head))
        if head is None:
            continue

        def some_of_peer(x):
            return x[0] == "agg" and x[3] == "Some" and render(x[4][0][1]) == pr and gs.next_call_bb(x[4][0][1]) == head

        def ne_edge(other):
            def p(c, r, l):
                if c[0] != "call":
                    return False
                n = strip_generics(c[1])
                isne = re.search(r"PartialEq(<[^>]*>)?>?::ne$", n) is not None
                iseq = re.search(r"PartialEq(<[^>]*>)?>?::eq$", n) is not None
                if not ((isne and l == "true") or (iseq and l == "false")):
                    return False
                a, b = c[2][0], c[2][1]
                return (some_of_peer(a) and other(b)) or (some_of_peer(b) and other(a))
            return p
        g1 = gs.guard(f, ne_edge(lambda x: x[0] == "arg" and x[1] == ps_arg), head)
        g2 = gs.guard(f, lambda c, r, l: l == "false" and c[0] == "call" and re.search(r"HashSet::contains$", strip_generics(c[1])) is not None and c[2][0][0] == "arg" and c[2][0][1] == orig_arg
                           and render(c[2][1]) == pr and gs.next_call_bb(c[2][1]) == head, head)
        g3 = gs.guard(f, ne_edge(lambda x: x[0] == "call" and re.search(r"Option::as_ref$", strip_generics(x[1])) is not None and x[2][0][0] == "field" and x[2][0][2] == "source"
                                   and x[2][0][1][0] == "arg" and x[2][0][1][1] == msg_arg), head)
        for inst, g, desc in (("never the peer it came from", g1, "Some(peer) != propagation_source"), ("never a peer that already sent it", g2, "!originating_peers.contains(peer)"),
                              ("never the message source", g3, "Some(peer) != message.source.as_ref()")):
            ok = bool(g) and f.must_pass_edges(s.bb, g, start=head)
            ctx.ob("fwd", "%s: %s" % (tag, inst), ok, s.loc(), ("every path from the loop head to recipient_peers.insert(peer) passes " if ok else "a path reaches recipient_peers.insert(peer) without ") + desc)
    sends = publish_sends(f)
    ctx.floor("fwd", "send_message(Publish) in forward_msg", sends, 1)
    for s in sends:
        e = f.site_expr(s)
        head = gs.next_call_bb(e[2][1])
        src = gs.expand(f, f.site_expr(mir.Site(f, head))[2][0]) if head is not None else ("unknown", "?")
        ok = head is not None and any(x[0] == "local" and x[1] == rloc for x in mir.walk(src)) and gs.has_call(src, r"HashSet::iter$|IntoIterator>::into_iter$")
        ctx.ob("fwd", "Publish goes only to the filtered recipients", ok, s.loc(), "send_message(peer, Publish) with peer drawn from %s" % render(src)[:120])
        mid, msg = rpc_field(f, s, "message_id"), rpc_field(f, s, "message")
        ok = mid is not None and msg is not None and any(x[0] == "arg" and x[1] == id_arg for x in mir.walk(mid)) and any(x[0] == "arg" and x[1] == msg_arg for x in mir.walk(msg))
        ctx.ob("fwd", "the forwarded id and message are the ones given", ok, s.loc(), "Publish{message_id: %s, message: %s}" % (render(mid)[-40:] if mid else "?", render(msg)[-40:] if msg else "?"))
    callers = prog.callers(G, gs.BEH + r"forward_msg$")
    ctx.floor("fwd", "forward_msg callers", callers, 2)
    ctx.ob("fwd", "forward_msg is called only from the receive and the validation path", sorted({c.body.npath for c in callers}) == sorted([B + "handle_received_message", B + "report_message_validation_result"]),
           msg=str(sorted({c.body.npath.replace(B, "") for c in callers})))
    for c in callers:
        b = c.body
        a = b.site_expr(c)[2][ps_arg - 1]
        ok = a[0] == "agg" and a[3] == "Some" and gs.is_arg(a[4][0][1], gs.arg_of_type(b, r"^&libp2p_identity::PeerId$"))
        ctx.ob("fwd", "%s passes Some(propagation_source)" % b.npath.replace(B, ""), ok, c.loc(), render(a)[:100])
        if b.npath.endswith("report_message_validation_result"):
            o = gs.expand(b, b.site_expr(c)[2][4])
            ok = gs.has_call(o, r"mcache::MessageCache::validate$") and render(o).endswith(".1")
            ctx.ob("fwd", "validation path passes the recorded duplicate senders", ok, c.loc(), "originating_peers = %s" % render(o)[:140])
            m = gs.expand(b, b.site_expr(c)[2][2])
            ctx.ob("fwd", "validation path forwards the cached message of that id", gs.has_call(m, r"mcache::MessageCache::validate$") and gs.is_arg(b.site_expr(c)[2][1], gs.arg_of_type(b, r"^&types::MessageId$")), c.loc(), render(m)[:140])

    # =================================================================== publish
    p = ctx.body(G, gs.BEH + r"publish$")
    psend = publish_sends(p)
    ctx.floor("pub", "send_message(Publish) in publish", psend, 1)
    _p = [(s, a) for s, a in gs.wrapped_calls(p, r"time_cache::DuplicateCache::insert$", "value") if render(a[0]) == "self.duplicate_cache"]
    pins = [s for s, _ in _p]
    pin_id = {s.key(): a[1] for s, a in _p}
    ctx.floor("pub", "duplicate_cache.insert in publish", pins, 1)
    pcon = [s for s, a in gs.wrapped_calls(p, r"time_cache::DuplicateCache::contains$", "value") if render(a[0]) == "self.duplicate_cache"]
    ctx.floor("pub", "duplicate_cache.contains in publish", pcon, 1)
    con_true, con_false = set(), set()
    for s in pcon:
        con_true |= lib.switch_edges_on_site(p, s, {"true"})
        con_false |= lib.switch_edges_on_site(p, s, {"false"})
    all_sends = p.call_sites(gs.BEH + r"send_message$")
    r_ = p.reachable(gs.edge_targets(con_true)) if con_true else set(lib.bbs(all_sends))
    hit = sorted(set(lib.bbs(all_sends) + lib.bbs(pins)) & r_)
    dup_err = [s for s in p.agg_sites(r"error::PublishError$", "Duplicate")]
    ctx.ob("pub", "already published id => Err(Duplicate), nothing sent", bool(con_true) and not hit and bool(dup_err) and all(p.must_pass_edges(s.bb, con_true) for s in dup_err), _loc(p),
           "from duplicate_cache.contains(id) == true no send_message / insert is reachable; PublishError::Duplicate only there")
    mid_l = None
    for s in pins:
        a = gs.expand(p, pin_id[s.key()])
        cid = id_calls(a)
        ctx.ob("pub", "the id stored is the published message's id", len(cid) == 1, s.loc(), render(a)[:140])
        mid_l = cid
    for s in psend:
        ctx.ob("pub", "own id is in the duplicate cache before anything is sent", bool(pins) and p.must_pass_nodes([0], [s.bb], lib.bbs(pins)), s.loc(), "duplicate_cache.insert(id) dominates send_message(Publish)")
        ctx.ob("pub", "sending only for an id not published before", bool(con_false) and p.must_pass_edges(s.bb, con_false), s.loc(), "send dominated by duplicate_cache.contains(id) == false")
        mid = rpc_field(p, s, "message_id")
        ok = mid is not None and mid_l is not None and id_calls(gs.expand(p, mid)) == mid_l
        ctx.ob("pub", "the id sent is the id stored", ok, s.loc(), "Publish.message_id = %s" % (render(gs.expand(p, mid))[:120] if mid else "?"))
        e = p.site_expr(s)
        head = gs.next_call_bb(e[2][1])
        src = gs.expand(p, p.site_expr(mir.Site(p, head))[2][0]) if head is not None else ("unknown", "?")
        ok = head is not None and gs.has_call(src, gs.BEH + r"filter_publish_candidates$")
        ctx.ob("pub", "Publish goes only to the selected recipients", ok, s.loc(), "recipients = %s" % render(src)[:140])
    fpc = p.call_sites(gs.BEH + r"filter_publish_candidates$")
    for s in fpc:
        a = gs.expand(p, p.site_expr(s)[2][2])
        # with the partial-messages feature `candidates` is re-bound by an if/else: every definition must derive from publish_peers
        vals = [a]
        if a[0] == "local" and len(p.defs.get(a[1], [])) > 1:
            vals = [gs.expand(p, p.rvalue_expr(d[3]) if d[0] == "stmt" else p.call_expr(d[3], d[1])) for d in p.defs[a[1]]]
        ok = bool(vals) and all(gs.has_call(v, gs.BEH + r"publish_peers$") for v in vals)
        ctx.ob("pub", "candidates come from publish_peers", ok, s.loc(), " | ".join(render(v)[:100] for v in vals))
    pp = ctx.body(G, gs.BEH + r"publish_peers$")
    rr = [x for _, x in gs.ret_exprs(pp)]
    ok = len(rr) == 1 and any(render(c[2][0]) == "self.connected_peers" for c in gs.calls(rr[0], r"HashMap::iter$"))
    ctx.ob("pub", "publish candidates are connected peers", ok, _loc(pp), render(rr[0])[:140] if rr else "?")
    for bb in (mid_l or []):
        c = p.site_expr(mir.Site(p, bb))
        ctx.ob("pub", "the id is Config::message_id of the message being published", render(c[2][0]) == "self.config", "%s:%d" % (p.file, p.blocks[bb]["term"].get("l", 0)), render(c)[:160])

    # =================================================================== who builds Publish RPCs
    whop = sorted({b.npath for b in prog.bodies(G) if b.agg_sites(r"types::RpcOut$", "Publish")})
    ctx.ob("who", "RpcOut::Publish is built only by publish, forward_msg and handle_iwant", whop == sorted([B + "publish", B + "forward_msg", B + "handle_iwant"]), msg=str([w.replace(B, "") for w in whop]))
