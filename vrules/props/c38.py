"""C38 closest-key enumeration is complete and sorted — comparator orientation (K5), ClosestBucketsIter state machine with monotone yields (K8), path counting (K2), constants (K6)."""
import re

from .. import lib, mir
from .. import lib_kad as lk
from ..mir import render, strip_generics
from ..lib_kad import R, cnt, tg, K

EXPLANATION = (
    "ClosestIter::next: each bucket buffer is filled from bucket.iter().take(bucket_size) (bucket_size == KBucket capacity by the constructor chain), "
    "then sorted with a comparator that is exactly distance(target, a).cmp(distance(target, b)) with a/b the first/second comparator argument "
    "(ascending), the sort lies between the fill and the store of the buffer on every path, a reused buffer is cleared first, an item is returned "
    "only from the buffer iterator and the partially consumed buffer is put back exactly once, the bucket index comes from buckets_iter.next() and a "
    "pending entry is applied before the bucket is read. ClosestBucketsIter: new() starts at BucketIndex::new(distance) or bucket 0; next() is "
    "analysed arm by arm: the state stored with every yield carries the yielded index, Start(i) yields i -> ZoomIn(i); ZoomIn(i) yields only "
    "next_in(i) (range 0..i reversed, set bits: strictly below i) or bucket 0 *only on an edge where i != 0* (bucket 0 not yet visited) and "
    "otherwise continues zooming out without yielding; ZoomOut(i) yields only next_out(i) (range i+1..NUM_BUCKETS ascending, unset bits: strictly "
    "above i) or ends in Done. So the yielded indices strictly decrease while zooming in, strictly increase while zooming out, the two phases "
    "partition the indices by the distance bit, and no index is yielded twice.")
ASSUMPTIONS = ["slice::sort_by sorts by the given comparator; SmallVec/Option::take semantics; U256::bit(i) is bit i of the distance",
               "that the union of all buckets holds every stored key once is C37's clause, not repeated here"]
TECHNIQUE = ("All patterns are evaluated on a normalised view of the MIR facts (vrules/lib_kad.canon): parameters by position, every "
             "single-definition local expanded to its initialiser, closure captures by index, trivial crate-local helpers (accessors, one-comparison "
             "predicates, one-line constructors) replaced by their bodies, private fields resolved by their type, comparisons normalised over operand "
             "order / mirrored operators / method-call form / `!`, guard sets closed under bool hoisting. Behaviour-preserving refactorings that must stay "
             "silent are archived in /verif/neutral/kad (01-12 and x1-author-combinators.diff).")
SELFTEST = [
    {"mutation": "unfixed tree (before fix commit): ZoomIn arm yields bucket 0 unconditionally when next_in is None", "caught_by": "buckets-fsm/ZoomIn: bucket 0 is yielded only if it was not visited yet (current index != 0)"},
    {"mutation": "comparator operands swapped (b before a)", "caught_by": "sort/comparator is ascending distance to the target"},
    {"mutation": "next_in range `(0..i.get())` -> `(0..=i.get())`", "caught_by": "buckets-fsm/next_in searches strictly below the current index, descending"},
    {"mutation": "next_out closure polarity `!bit` -> `bit`", "caught_by": "buckets-fsm/next_out yields exactly the unset distance bits"},
    {"mutation": "ClosestIter::next: drop `self.iter = Some(iter)` after yielding an item", "caught_by": "iter/partially consumed buffer is put back exactly once"},
    {"mutation": "ZoomOut Some arm stores ZoomOut(old i) instead of the yielded index", "caught_by": "buckets-fsm/ZoomOut: state carries the yielded index"},
]

CI = r"^libp2p_kad::<kbucket::ClosestIter as std::iter::Iterator>::next"
CB = r"^libp2p_kad::<kbucket::ClosestBucketsIter as std::iter::Iterator>::next$"
BI0 = "libp2p_kad::kbucket::BucketIndex::BucketIndex{0: 0}"


class F:
    pass


def resolve(prog):
    ci = r"kbucket::ClosestIter$"
    F.target = lk.fld(prog, ci, r"TTarget$")
    F.table = lk.fld(prog, ci, r"kbucket::KBucketsTable<")
    F.biter = lk.fld(prog, ci, r"^kbucket::ClosestBucketsIter$")
    F.iter = lk.fld(prog, ci, r"kbucket::ClosestIterBuffer<")
    F.fmap = lk.fld(prog, ci, r"^TMap$")
    F.bsize = lk.fld(prog, ci, r"^usize$")
    cb = r"kbucket::ClosestIterBuffer$"
    F.buffer = lk.fld(prog, cb, r"^smallvec::SmallVec<")
    F.index = lk.fld(prog, cb, r"^usize$")
    kt = r"kbucket::KBucketsTable$"
    F.buckets = lk.fld(prog, kt, r"^std::vec::Vec<kbucket::bucket::KBucket<")
    F.t_bsize = lk.fld(prog, kt, r"^usize$")
    F.local_key = lk.fld(prog, kt, r"^TKey$")
    F.applied = lk.fld(prog, kt, r"VecDeque<")
    bi = r"kbucket::ClosestBucketsIter$"
    F.distance = lk.fld(prog, bi, r"kbucket::key::Distance$")
    F.state = lk.fld(prog, bi, r"ClosestBucketsIterState$")
    F.kb_cap = lk.fld(prog, r"kbucket::bucket::KBucket$", r"^usize$")
    F.kb_nodes = lk.fld(prog, r"kbucket::bucket::KBucket$", r"^std::vec::Vec<kbucket::bucket::Node<")


def leaves_args(e):
    return {s[1] for s in mir.walk(e) if s[0] == "arg"}


def check(ctx):
    prog = lk.canon(ctx)
    resolve(prog)
    check_iter(ctx, prog)
    check_buckets_iter(ctx, prog)


def check_iter(ctx, prog):
    b = ctx.body(K, CI + "$")
    W = lk.where(b)
    rets = b.return_blocks()
    BN = "<std::option::Option as std::ops::Try>::branch(libp2p_kad::<kbucket::ClosestBucketsIter as std::iter::Iterator>::next(self.%s))@Continue.0" % F.biter
    BN2 = "libp2p_kad::<kbucket::ClosestBucketsIter as std::iter::Iterator>::next(self.%s)@Some.0" % F.biter
    TAKEN = "std::option::Option::take(self.%s)@Some.0" % F.iter
    sorts = b.call_sites(r"slice::(<impl \[T\]>::)?sort(_unstable)?_by(_key|_cached_key)?$|^std::slice::sort(_unstable)?_by(_key|_cached_key)?$")
    ctx.floor("sort", "sort_by on the bucket buffer", sorts, 1, exact=True)
    ext = b.call_sites(r"SmallVec as std::iter::Extend>::extend$")
    loop_fill = False
    if not ext:
        # explicit loop `for e in bucket.iter().take(n) { buffer.push(Some(fmap(e))) }` instead of extend(chain)
        ext = b.call_sites(r"smallvec::SmallVec::push$")
        loop_fill = True
    ctx.floor("sort", "buffer fill (extend or push loop)", ext, 1, exact=True)
    store = [s for s, k, t in lk.field_effects(b, F.iter) if k == "set" and "kbucket::ClosestIterBuffer::ClosestIterBuffer{" in t]
    ctx.floor("sort", "store of the sorted buffer", store, 1, exact=True)
    buf = render(b.site_expr(ext[0])[2][0]) if ext else "?"
    for s in sorts:
        e = b.site_expr(s)
        ctx.ob("sort", "the sorted slice is the filled buffer", render(e[2][0]) in ("<smallvec::SmallVec as std::ops::DerefMut>::deref_mut(%s)" % buf, buf), s.loc(), render(e[2][0]))
        cl = lib.closure_of(prog, b, e)
        ok = False
        msg = "no comparator closure"
        if cl is not None:
            rs = lk.ret_sites(cl)
            if len(rs) == 1:
                ce = cl.site_expr(rs[0])
                msg = render(ce)[:400]
                if re.search(r"_key$", strip_generics(e[1])):
                    # sort_by_key(|x| target.distance(x)): ascending by construction, the key must be the distance to the target
                    kx = ce[1] if (ce[0] == "field" and ce[2] == "0") else ce
                    ok = kx[0] == "call" and strip_generics(kx[1]).endswith("kbucket::key::KeyBytes::distance") and render(kx[2][0]) == "std::convert::AsRef::as_ref(^0)" and leaves_args(kx[2][1]) == {2}
                elif ce[0] == "call" and re.search(r"(kbucket::key::Distance|kbucket::key::U256) as std::cmp::Ord>::cmp$", strip_generics(ce[1])) and len(ce[2]) == 2:
                    sides = []
                    for x in ce[2]:
                        ds = mir.calls_in(x, r"kbucket::key::KeyBytes::distance$")
                        good = len(ds) == 1 and render(ds[0][2][0]) == "std::convert::AsRef::as_ref(^0)"
                        sides.append((good, leaves_args(ds[0][2][1]) if ds else set()))
                    # closure params: _1 = closure env, _2 = first, _3 = second element
                    ok = sides[0] == (True, {2}) and sides[1] == (True, {3})
        ctx.ob("sort", "comparator is ascending distance to the target", ok, s.loc(), "cmp(distance(target, <1st arg>), distance(target, <2nd arg>)): " + msg[-260:])
        caps = [render(x) for c in mir.walk(e) if c[0] == "closure" for x in c[2]]
        ctx.ob("sort", "comparator captures the iterator's target", caps == ["self.%s" % F.target], s.loc(), str(caps))
        if ext and store:
            ok = b.dominates(ext[0].bb, s.bb) and b.dominates(s.bb, store[0].bb) and ext[0].bb not in b.reachable(b.succ[s.bb], stop_nodes=[store[0].bb]) - {store[0].bb}
            ctx.ob("sort", "fill -> sort -> store on every path", ok, s.loc(), "extend bb%d, sort bb%d, store bb%d" % (ext[0].bb, s.bb, store[0].bb))
    for s in store:
        e = b.site_expr(s)
        f = dict(e[4][0][1][4]) if e[0] == "agg" and e[3] == "Some" and e[4][0][1][0] == "agg" else {}
        ctx.ob("sort", "the stored buffer is the sorted one, cursor at 0", render(f.get(F.buffer, ("unknown", "?"))) == buf and render(f.get(F.index, ("unknown", "?"))) == "0", s.loc(), R(b, s)[:160])
    # --- fill
    IDX = None
    idx = [s for s in b.call_sites(r"Index(Mut)?>::index(_mut)?$") if render(b.site_expr(s)[2][0]) == "self.%s.%s" % (F.table, F.buckets)]
    ctx.floor("iter", "table.buckets[..]", idx, 1, exact=True)
    bucket_txt = R(b, idx[0]) if idx else "?"
    for s in ext:
        e = b.site_expr(s)
        src = e[2][1]
        if loop_fill:
            its = [c for c in mir.calls_in(e[2][1], r"IntoIterator>?::into_iter$")]
            ok = len(its) == 1 and e[2][1][0] == "agg" and e[2][1][3] == "Some" and render(e[2][1][4][0][1]).startswith("std::ops::Fn::call(self.%s, tuple{0: " % F.fmap) and render(e[2][1][4][0][1]).endswith("@Some.0})")
            ctx.ob("iter", "map closure applies the projection to every element", ok, s.loc(), render(e[2][1])[:200])
            src = its[0][2][0] if its else src
        adaptors = []
        x = src
        while x[0] == "call" and re.search(r"iter::Iterator::\w+$", strip_generics(x[1])):
            adaptors.append(strip_generics(x[1]).split("::")[-1])
            if adaptors[-1] == "take":
                ctx.ob("iter", "take bound is the table's bucket size", render(x[2][1]) == "self.%s" % F.bsize, s.loc(), render(x[2][1]))
            x = x[2][0]
        ctx.ob("iter", "buffer is filled from bucket.iter() of the selected bucket", render(x) == "libp2p_kad::kbucket::bucket::KBucket::iter(%s)" % bucket_txt, s.loc(), render(x)[:200])
        ctx.ob("iter", "no filter between the bucket and the buffer", set(adaptors) <= {"map", "take", "cloned", "copied"}, s.loc(), "adaptors %s" % adaptors)
        cls = [c for c in mir.walk(e) if c[0] == "closure"]
        if not loop_fill:
            ctx.floor("iter", "projection closure", cls, 1)
        for c in cls:
            cb = prog.closure_body(b, c[1])
            rs = [render(lk.subst_upvars(c, cb.site_expr(x))) for x in lk.ret_sites(cb)]
            ctx.ob("iter", "map closure applies the projection to every element", rs == ["std::ops::Fn::call(self.%s, tuple{0: #2})" % F.fmap], lk.where(cb), str(rs))
    for s in idx:
        e = b.site_expr(s)[2][1]
        vals = []
        msg = render(e)
        base = e
        path = []
        while base[0] == "field":
            path.append(base[2])
            base = base[1]
        if base[0] == "local":
            for d in b.defs.get(base[1], []):
                if d[0] == "stmt":
                    v = b.rvalue_expr(d[3])
                    for fname in reversed(path):
                        if v[0] == "agg":
                            v = dict(v[4]).get(fname, ("unknown", "?"))
                        else:
                            v = ("field", v, fname, None)
                    vals.append(render(v))
        else:
            vals = [msg]
        ok = len(vals) >= 1 and all(v in (BN + ".0", BN2 + ".0") for v in vals)
        ctx.ob("iter", "bucket index is the value yielded by buckets_iter.next()", ok, s.loc(), str(vals)[:300])
    ap = b.call_sites(r"^libp2p_kad::kbucket::bucket::KBucket::apply_pending$")
    it = b.call_sites(r"^libp2p_kad::kbucket::bucket::KBucket::iter$")
    ctx.ob("iter", "pending entry applied before the bucket is read", len(ap) == 1 and len(it) == 1 and b.dominates(ap[0].bb, it[0].bb) and ap[0].bb != it[0].bb
           and render(b.site_expr(ap[0])[2][0]) == render(b.site_expr(it[0])[2][0]), W, "apply_pending dominates bucket.iter() on the same bucket")
    # --- buffer iterator protocol
    nx = b.call_sites(r"^libp2p_kad::<kbucket::ClosestIterBuffer as std::iter::Iterator>::next$")
    ctx.floor("iter", "buffer iterator next()", nx, 1, exact=True)
    some_items = [s for s in lk.ret_sites(b) if s.si is not None and R(b, s).startswith("std::option::Option::Some{")]
    ctx.floor("iter", "item results", some_items, 1)
    NXT = "libp2p_kad::<kbucket::ClosestIterBuffer as std::iter::Iterator>::next(%s)" % TAKEN
    for s in some_items:
        t = R(b, s)
        ctx.ob("iter", "items come only from the sorted buffer", t == "std::option::Option::Some{0: %s@Some.0}" % NXT, s.loc(), t[:160])
    restore = [s for s, k, t in lk.field_effects(b, F.iter) if k == "set" and t == "std::option::Option::Some{0: %s}" % TAKEN]
    draws = b.call_sites(CB)
    for n in nx:
        some = tg(lib.switch_edges_on_site(b, n, {"Some"}))
        none = tg(lib.switch_edges_on_site(b, n, {"None"}))
        got = cnt(b, some, rets, restore) if some else None
        ctx.ob("iter", "partially consumed buffer is put back exactly once", got == (1, 1), n.loc(), "self.iter = Some(iter) on the item edge: %s" % (got,))
        got = cnt(b, some, rets, draws) if some else None
        ctx.ob("iter", "no bucket is skipped while the buffer still has items", got == (0, 0), n.loc(), "buckets_iter.next() on the item edge: %s" % (got,))
        clear = lk.recv_calls(b, r"SmallVec::clear$", "^" + re.escape(TAKEN + "." + F.buffer) + "$")
        got = cnt(b, none, lib.bbs(ext), clear) if none and ext else None
        ctx.ob("iter", "a reused buffer is cleared before it is refilled", got == (1, 1), n.loc(), "SmallVec::clear(iter.buffer) between exhaustion and refill: %s" % (got,))
        got = cnt(b, none, lib.bbs(ext) + rets, draws) if none else None
        ctx.ob("iter", "exhausted buffer => exactly one new bucket index is drawn", got == (1, 1), n.loc(), str(got))
    tk = lk.recv_calls(b, r"Option::take$", r"^self\.%s$" % F.iter)
    none0 = tg(lib.switch_edges_on(b, r"^discr\(std::option::Option::take\(self\.%s\)\)$" % F.iter, {"None"}))
    got = cnt(b, none0, lib.bbs(ext) + rets, draws) if none0 else None
    ctx.ob("iter", "first call draws exactly one bucket index", len(tk) == 1 and got == (1, 1), W, str(got))
    # --- buffer iterator itself
    bi = ctx.body(K, r"^libp2p_kad::<kbucket::ClosestIterBuffer as std::iter::Iterator>::next$")
    fx = lk.field_effects(bi, F.index)
    ok = len(fx) == 1 and fx[0][1] == "set" and fx[0][2] in ("AddWithOverflow(self.%s, 1).0" % F.index, "Add(self.%s, 1)" % F.index)
    ctx.ob("iter", "buffer cursor advances by one per item", ok, lk.where(bi), str([(k, t) for _, k, t in fx]))
    g = [R(bi, s) for s in bi.call_sites(r"slice::(<impl \[T\]>::)?get_mut$|SmallVec::get_mut$")]
    ctx.ob("iter", "buffer item is read at the cursor", len(g) == 1 and g[0].endswith("(self.%s), self.%s)" % (F.buffer, F.index)) or g == ["core::slice::get_mut(self.%s, self.%s)" % (F.buffer, F.index)], lk.where(bi), str(g))
    if fx:
        got_sites = bi.call_sites(r"get_mut$")
        cont = set()
        for gs in got_sites:
            cont |= lib.switch_edges_on_site(bi, gs, {"Continue", "Some"})
        got = cnt(bi, tg(cont), bi.return_blocks(), [fx[0][0]]) if cont else None
        ctx.ob("iter", "cursor advanced on every yielded item", got == (1, 1), lk.where(bi), str(got))
    # --- constructors
    for fn in ("closest", "closest_keys"):
        c = ctx.body(K, r"^libp2p_kad::kbucket::KBucketsTable::%s$" % fn)
        ags = c.agg_sites(r"kbucket::ClosestIter$")
        f = {k: render(v) for k, v in c.site_expr(ags[0])[4]} if len(ags) == 1 else {}
        DIST = "libp2p_kad::kbucket::key::KeyBytes::distance(std::convert::AsRef::as_ref(self.%s), #2)" % F.local_key
        ok = (f.get(F.target) == "#2" and f.get(F.table) == "self" and f.get(F.biter) == "libp2p_kad::kbucket::ClosestBucketsIter::new(%s)" % DIST
              and f.get(F.iter) == "std::option::Option::None{}" and f.get(F.fmap, "").startswith("closure:") and f.get(F.bsize) == "self.%s" % F.t_bsize)
        ctx.ob("ctor", fn + ": buckets ordered by distance(local_key, target), sorted against the same target, take(bucket_size of the table)", ok, lk.where(c), str(f)[:300])
        fm = [x for x in prog.bodies(K) if x.kind == "closure" and lk.root_fn(prog, x) is c]
        rs = [R(x, s) for x in fm for s in lk.ret_sites(x)]
        if fn == "closest_keys":
            ctx.ob("ctor", "closest_keys projects each node to its own key", rs == ["std::clone::Clone::clone(#2.0.key)"], lk.where(c), str(rs))
        else:
            ctx.ob("ctor", "closest projects each node to a view of itself", rs == ["libp2p_kad::kbucket::entry::EntryView::EntryView{node: libp2p_kad::<kbucket::bucket::Node as std::clone::Clone>::clone(#2.0), status: #2.1}"], lk.where(c), str(rs)[:200])
    ev = ctx.body(K, r"kbucket::entry::EntryView as std::convert::AsRef>::as_ref$")
    rs = [R(ev, s) for s in lk.ret_sites(ev)]
    ctx.ob("ctor", "EntryView is compared by its node key", rs == ["std::convert::AsRef::as_ref(self.node.key)"], lk.where(ev), str(rs))
    tn = ctx.body(K, r"^libp2p_kad::kbucket::KBucketsTable::new$")
    ags = tn.agg_sites(r"kbucket::KBucketsTable$")
    f = {k: render(v) for k, v in tn.site_expr(ags[0])[4]} if len(ags) == 1 else {}
    cfg_field = f.get(F.t_bsize, "?")
    ctx.ob("ctor", "table.bucket_size = config.bucket_size (= every bucket's capacity)", re.match(r"^#2\.\w+$", cfg_field) is not None, lk.where(tn), str(f)[:240])
    kn = ctx.body(K, r"^libp2p_kad::kbucket::bucket::KBucket::new$")
    ags = kn.agg_sites(r"kbucket::bucket::KBucket$")
    f2 = {k: render(v) for k, v in kn.site_expr(ags[0])[4]} if len(ags) == 1 else {}
    ctx.ob("ctor", "bucket capacity = the same config field", f2.get(F.kb_cap, "?").replace("#1.", "") == cfg_field.replace("#2.", "") and f2.get(F.kb_cap, "").startswith("#1."), lk.where(kn), "%s vs %s" % (f2.get(F.kb_cap), cfg_field))
    cl = [c for c in prog.bodies(K) if c.kind == "closure" and lk.root_fn(prog, c) is tn]
    es = [c.site_expr(s) for c in cl for s in lk.ret_sites(c)]
    ok = False
    if len(es) == 1:
        e = es[0]
        if render(e) == "libp2p_kad::kbucket::bucket::KBucket::new(^0)":
            ok = True
        elif e[0] == "agg" and strip_generics(e[2]).endswith("kbucket::bucket::KBucket"):        # trivial constructor, shown inlined
            ok = render(dict(e[4]).get(F.kb_cap, ("unknown", "?"))) == cfg_field.replace("#2.", "^0.")
    ctx.ob("ctor", "every bucket of the table is built from the same config", ok and "[#2]" in f.get(F.buckets, ""), lk.where(tn), "%s %s" % ([render(e)[:120] for e in es], f.get(F.buckets, "")[-80:]))
    nb = prog.const(K, r"^libp2p_kad::kbucket::NUM_BUCKETS$").get("v")
    ctx.ob("ctor", "NUM_BUCKETS == 256 (one per bit of the 256-bit distance)", nb == 256, msg=str(nb))
    ctx.ob("ctor", "the table has NUM_BUCKETS buckets", "std::ops::Range::Range{start: 0, end: const:libp2p_kad::kbucket::NUM_BUCKETS}" in f.get(F.buckets, ""), lk.where(tn), f.get(F.buckets, "")[:200])


def check_buckets_iter(ctx, prog):
    R_ = "buckets-fsm"
    S = "libp2p_kad::kbucket::ClosestBucketsIterState::"
    # --- new
    n = ctx.body(K, r"^libp2p_kad::kbucket::ClosestBucketsIter::new$")
    NEWI = "libp2p_kad::kbucket::BucketIndex::new(#1)"
    st = {}
    for s in n.agg_sites(r"kbucket::ClosestBucketsIterState$"):
        gs = {g[0]: g[1] for g in n.guards_on_all_paths(s.bb)}
        lab = gs.get("discr(%s)" % NEWI)
        st["|".join(sorted(lab)) if lab else "?"] = R(n, s)
    ok = st == {"Some": S + "Start{0: %s@Some.0}" % NEWI, "None": S + "Start{0: %s}" % BI0}
    ctx.ob(R_, "new: starts at the bucket covering the target (bucket 0 for distance 0)", ok, lk.where(n), str(st)[:300])
    ags = n.agg_sites(r"kbucket::ClosestBucketsIter$")
    f = {k: render(v) for k, v in n.site_expr(ags[0])[4]} if len(ags) == 1 else {}
    ctx.ob(R_, "new: keeps the distance it was given", f.get(F.distance) == "#1", lk.where(n), str(f)[:200])
    # --- next()
    b = ctx.body(K, CB)
    W = lk.where(b)
    stores = [(s, k, t) for s, k, t in lk.field_effects(b, F.state)]
    ctx.floor(R_, "state stores", stores, 5)
    ctx.ob(R_, "state is only replaced as a whole", all(k == "set" for _, k, _ in stores), W, str([k for _, k, _ in stores]))
    STATE = "self.%s" % F.state
    arms = {}
    for v in ("Start", "ZoomIn", "ZoomOut", "Done"):
        ent = tg(lib.arm_entry(b, "^discr\\(%s\\)$" % re.escape(STATE), v))
        ctx.ob(R_, "floor:arm " + v, len(ent) == 1, W, nontrivial=False, msg=str(ent))
        arms[v] = ent
    if not all(arms.values()):
        return

    def arm_rows(v):
        ent = arms[v]
        reach = b.reachable(ent)
        other = set()
        for w, e2 in arms.items():
            if w != v:
                other |= b.reachable(e2) - set(b.return_blocks())
        rows = []
        for s in lk.ret_sites(b):
            if s.bb not in reach or (s.bb in other and not b.dominates(ent[0], s.bb)):
                continue
            sts = [x for x, _, _ in stores if x.bb in reach and (b.dominates(x.bb, s.bb))]
            rows.append((s, R(b, s), [R(b, x) for x in sts], cnt(b, ent, [s.bb], [x for x, _, _ in stores])))
        return rows

    cur = {"Start": STATE + "@Start.0", "ZoomIn": STATE + "@ZoomIn.0", "ZoomOut": STATE + "@ZoomOut.0"}
    # the two search helpers are identified by role, not by name: the inherent method of ClosestBucketsIter that `next` calls with
    # (self, current index) in the ZoomIn / ZoomOut arm
    helpers, hname = {}, {}
    for role_, arm_ in (("next_in", "ZoomIn"), ("next_out", "ZoomOut")):
        reach_ = b.reachable(arms[arm_])
        names_ = set()
        for s_ in b.call_sites(r"^libp2p_kad::kbucket::ClosestBucketsIter::\w+$"):
            e_ = b.site_expr(s_)
            if s_.bb in reach_ and len(e_[2]) == 2 and render(e_[2][0]) == "self" and render(e_[2][1]) == cur[arm_]:
                names_.add(strip_generics(e_[1]))
        if len(names_) == 1:
            hname[role_] = names_.pop()
            helpers[role_] = prog.by_npath(K).get(hname[role_])
    # --- next_in / next_out: first hit over a range, in either adaptor or loop form
    BIT = "libp2p_kad::kbucket::key::U256::bit(self.%s.0, <e>)" % F.distance
    SOME = "std::option::Option::Some{0: libp2p_kad::kbucket::BucketIndex::BucketIndex{0: <e>}}"
    NONE = "std::option::Option::None{}"
    for fn, rng, hit, desc in (("next_in", ["std::iter::Iterator::rev(std::ops::Range::Range{start: 0, end: #2.0})"], "true", "strictly below the current index, descending"),
                               ("next_out", ["std::ops::Range::Range{start: AddWithOverflow(#2.0, 1).0, end: const:libp2p_kad::kbucket::NUM_BUCKETS}",
                                             "std::ops::Range::Range{start: Add(#2.0, 1), end: const:libp2p_kad::kbucket::NUM_BUCKETS}"], "false", "strictly above the current index up to NUM_BUCKETS, ascending")):
        fb = helpers.get(fn)
        ctx.ob(R_, "floor:%s helper (the private method called with the current index in the %s arm)" % (fn, "ZoomIn" if fn == "next_in" else "ZoomOut"), fb is not None, W, nontrivial=False, msg=str(fb and fb.npath))
        if fb is None:
            continue
        ctx.use(fb)
        sc = lk.first_hit(prog, fb)
        ctx.ob(R_, "floor:%s is a first-hit scan (find_map or loop)" % fn, sc is not None, lk.where(fb), nontrivial=False, msg=str(sc)[:300])
        if sc is None:
            continue
        ctx.ob(R_, "%s searches %s" % (fn, desc), sc["range"] in rng, lk.where(fb), "%s over %s" % (sc["form"], sc["range"][:200]))
        miss = "false" if hit == "true" else "true"
        ok = sc["pred"] == BIT and sc["vals"].get(hit) == [SOME] and sc["vals"].get(miss) == [NONE] and sc["exhausted"] == [NONE]
        ctx.ob(R_, "%s yields exactly the %s distance bits" % (fn, "set" if hit == "true" else "unset"), ok, lk.where(fb),
               "test %s; %s -> %s; %s -> %s; exhausted -> %s" % (sc["pred"], hit, sc["vals"].get(hit), miss, sc["vals"].get(miss), sc["exhausted"]))
    rows = arm_rows("Start")
    ok = len(rows) == 1 and rows[0][1] == "std::option::Option::Some{0: %s}" % cur["Start"] and rows[0][2] == [S + "ZoomIn{0: %s}" % cur["Start"]] and rows[0][3] == (1, 1)
    ctx.ob(R_, "Start(i): yields i and moves to ZoomIn(i)", ok, W, str([(r[1], r[2], r[3]) for r in rows])[:300])
    rows = arm_rows("ZoomIn")
    NI = "%s(self, %s)" % (hname.get("next_in", "?"), cur["ZoomIn"])
    in_some = lib.switch_edges_on(b, "^discr\\(" + re.escape(NI) + "\\)$", {"Some"})
    in_none = lib.switch_edges_on(b, "^discr\\(" + re.escape(NI) + "\\)$", {"None"})
    CURV = "^" + re.escape(cur["ZoomIn"] + ".0") + "$"
    nz_edges = lk.rel_edges(b, CURV, r"^0$", "!=") | lk.rel_edges(b, CURV, r"^0$", ">")
    z_edges = lk.rel_edges(b, CURV, r"^0$", "==")
    for bi in b.live:            # `match i.get() { 0 => .., _ => .. }`
        info = b.switch_info(bi)
        if info and re.match(CURV, render(info[0])):
            for t, ls in info[1].items():
                if ls == {0}:
                    z_edges.add((bi, t))
                elif ls == {"otherwise"} and set().union(*[x for tt, x in info[1].items() if tt != t]) == {0}:
                    nz_edges.add((bi, t))
    kinds = set()
    for s, r, sts, n_ in rows:
        if r == "std::option::Option::Some{0: %s@Some.0}" % NI:
            kinds.add("in")
            ctx.ob(R_, "ZoomIn: state carries the yielded index", sts == [S + "ZoomIn{0: %s@Some.0}" % NI] and n_ == (1, 1), s.loc(), "%s %s" % (sts, n_))
            ctx.ob(R_, "ZoomIn: yields next_in only when it found one", lk.passes(b, s.bb, in_some), s.loc(), "")
        elif r == "std::option::Option::Some{0: %s}" % BI0:
            kinds.add("zero")
            ctx.ob(R_, "ZoomIn: turning point stores ZoomOut(0) with the yield of bucket 0", sts == [S + "ZoomOut{0: %s}" % BI0] and n_ == (1, 1), s.loc(), "%s %s" % (sts, n_))
            ctx.ob(R_, "ZoomIn: bucket 0 is yielded only after zooming in is exhausted", lk.passes(b, s.bb, in_none), s.loc(), "next_in(i) is None")
            ok = lk.passes(b, s.bb, nz_edges)
            ctx.ob(R_, "ZoomIn: bucket 0 is yielded only if it was not visited yet (current index != 0)", ok, s.loc(),
                   "ZoomIn(0) is entered only together with yielding bucket 0 (Start(0) or next_in == 0); without an `i != 0` guard bucket 0 is enumerated twice "
                   "whenever bit 0 of the distance is set or the distance is 0 or 1" if not ok else "guarded by current index != 0")
        elif s.si is None and r == "libp2p_kad::<kbucket::ClosestBucketsIter as std::iter::Iterator>::next(self)":
            kinds.add("delegate")
            ok = sts in ([S + "ZoomOut{0: %s}" % cur["ZoomIn"]], [S + "ZoomOut{0: %s}" % BI0]) and n_ == (1, 1)
            ctx.ob(R_, "ZoomIn: continuing without a yield first moves to ZoomOut(current index)", ok, s.loc(), "%s %s" % (sts, n_))
            ctx.ob(R_, "ZoomIn: continues zooming out without a yield only at index 0 with zoom-in exhausted", lk.passes(b, s.bb, z_edges) and lk.passes(b, s.bb, in_none), s.loc(), "")
            st_site = [x for x, _, _ in stores if x.bb == s.bb or b.dominates(x.bb, s.bb)]
            ctx.ob(R_, "ZoomIn: state is updated before the recursive step", all(x.si is not None for x in st_site), s.loc(), "")
        else:
            kinds.add("?")
            ctx.ob(R_, "ZoomIn: every result is next_in, the turning point, or a continuation", False, s.loc(), r[:200])
    ctx.ob(R_, "floor:ZoomIn results", {"in", "zero"} <= kinds, W, nontrivial=False, msg=str(sorted(kinds)))
    rows = arm_rows("ZoomOut")
    NO = "%s(self, %s)" % (hname.get("next_out", "?"), cur["ZoomOut"])
    out_some = lib.switch_edges_on(b, "^discr\\(" + re.escape(NO) + "\\)$", {"Some"})
    out_none = lib.switch_edges_on(b, "^discr\\(" + re.escape(NO) + "\\)$", {"None"})
    kinds = set()
    for s, r, sts, n_ in rows:
        if r == "std::option::Option::Some{0: %s@Some.0}" % NO:
            kinds.add("out")
            ctx.ob(R_, "ZoomOut: state carries the yielded index", sts == [S + "ZoomOut{0: %s@Some.0}" % NO] and n_ == (1, 1), s.loc(), "%s %s" % (sts, n_))
            ctx.ob(R_, "ZoomOut: yields next_out only when it found one", lk.passes(b, s.bb, out_some), s.loc(), "")
        elif r == "std::option::Option::None{}":
            kinds.add("done")
            ctx.ob(R_, "ZoomOut: exhausted => Done, yields None", sts == [S + "Done{}"] and n_ == (1, 1) and lk.passes(b, s.bb, out_none), s.loc(), "%s %s" % (sts, n_))
        else:
            kinds.add("?")
            ctx.ob(R_, "ZoomOut: every result is next_out or the end", False, s.loc(), r[:200])
    ctx.ob(R_, "floor:ZoomOut results", kinds == {"out", "done"}, W, nontrivial=False, msg=str(sorted(kinds)))
    rows = arm_rows("Done")
    ok = len(rows) == 1 and rows[0][1] == "std::option::Option::None{}" and rows[0][2] == [] and rows[0][3] == (0, 0)
    ctx.ob(R_, "Done: yields None forever", ok, W, str([(r[1], r[2], r[3]) for r in rows]))

# thorough-tier sensitivity self-test (vrules/selftest.py): one-edit variants of the source that break the property
MUTANTS = [
    {"name": 'comparator operands swapped', "file": 'protocols/kad/src/kbucket.rs',
     "find": '                    .distance(a.as_ref())\n                    .cmp(&self.target.as_ref().distance(b.as_ref()))',
     "replace": '                    .distance(b.as_ref())\n                    .cmp(&self.target.as_ref().distance(a.as_ref()))',
     "expect": '^sort/comparator is ascending', "why": 'descending order inside a bucket'},
    {"name": 'next_in range inclusive', "file": 'protocols/kad/src/kbucket.rs',
     "find": '(0..i.get()).rev().find_map(',
     "replace": '(0..=i.get()).rev().find_map(',
     "expect": '^buckets-fsm/next_in searches strictly below', "why": 'the current bucket is yielded again'},
    {"name": 'buffer not put back', "file": 'protocols/kad/src/kbucket.rs',
     "find": '                if let Some(next) = iter.next() {\n                    self.iter = Some(iter);\n                    return Some(next);',
     "replace": '                if let Some(next) = iter.next() {\n                    return Some(next);',
     "expect": '^iter/partially consumed buffer is put back', "why": 'the rest of the bucket is lost'},
    {"name": 'next_out polarity', "file": 'protocols/kad/src/kbucket.rs',
     "find": '            if !self.distance.0.bit(i) {',
     "replace": '            if self.distance.0.bit(i) {',
     "expect": '^buckets-fsm/next_out yields exactly the unset', "why": 'zoom-out revisits zoom-in buckets'},
]
