"""C38 closest-key enumeration is complete and sorted — comparator orientation (K5), ClosestBucketsIter state machine with monotone yields (K8), path counting (K2), constants (K6)."""
import re

from .. import lib, mir
from .. import lib_kad as lk
from ..mir import render, strip_generics
from ..lib_kad import R, cnt, tg, K

EXPLANATION = (
    "ClosestIter::next: each bucket buffer is filled from bucket.iter().take(bucket_size) (bucket_size == KBucket capacity by the constructor chain), "
    "then sorted with a comparator that is exactly distance(target, a).cmp(distance(target, b)) with a/b the first/second comparator argument "
    "(ascending), the sort lies between the fill and the store of the buffer on every path, a reused buffer is cleared first, an item is returned "
    "only from the buffer iterator and the partially consumed buffer is put back exactly once, the bucket index comes from buckets_iter.next() and a "
    "pending entry is applied before the bucket is read. ClosestBucketsIter: new() starts at BucketIndex::new(distance) or bucket 0; next() is "
    "analysed arm by arm: the state stored with every yield carries the yielded index, Start(i) yields i -> ZoomIn(i); ZoomIn(i) yields only "
    "next_in(i) (range 0..i reversed, set bits: strictly below i) or bucket 0 *only on an edge where i != 0* (bucket 0 not yet visited) and "
    "otherwise continues zooming out without yielding; ZoomOut(i) yields only next_out(i) (range i+1..NUM_BUCKETS ascending, unset bits: strictly "
    "above i) or ends in Done. So the yielded indices strictly decrease while zooming in, strictly increase while zooming out, the two phases "
    "partition the indices by the distance bit, and no index is yielded twice.")
ASSUMPTIONS = ["slice::sort_by sorts by the given comparator; SmallVec/Option::take semantics; U256::bit(i) is bit i of the distance",
               "that the union of all buckets holds every stored key once is C37's clause, not repeated here"]
SELFTEST = [
    {"mutation": "unfixed tree (before fix commit): ZoomIn arm yields bucket 0 unconditionally when next_in is None", "caught_by": "buckets-fsm/ZoomIn: bucket 0 is yielded only if it was not visited yet (current index != 0)"},
    {"mutation": "comparator operands swapped (b before a)", "caught_by": "sort/comparator is ascending distance to the target"},
    {"mutation": "next_in range `(0..i.get())` -> `(0..=i.get())`", "caught_by": "buckets-fsm/next_in searches strictly below the current index, descending"},
    {"mutation": "next_out closure polarity `!bit` -> `bit`", "caught_by": "buckets-fsm/next_out yields exactly the unset distance bits"},
    {"mutation": "ClosestIter::next: drop `self.iter = Some(iter)` after yielding an item", "caught_by": "iter/partially consumed buffer is put back exactly once"},
    {"mutation": "ZoomOut Some arm stores ZoomOut(old i) instead of the yielded index", "caught_by": "buckets-fsm/ZoomOut: state carries the yielded index"},
]

CI = r"^libp2p_kad::<kbucket::ClosestIter as std::iter::Iterator>::next"
CB = r"^libp2p_kad::<kbucket::ClosestBucketsIter as std::iter::Iterator>::next$"
BN = r"<std::option::Option as std::ops::Try>::branch\(libp2p_kad::<kbucket::ClosestBucketsIter as std::iter::Iterator>::next\(self\.buckets_iter\)\)@Continue\.0"
BI0 = "libp2p_kad::kbucket::BucketIndex::BucketIndex{0: 0}"


def leaves_args(e):
    return {s[1] for s in mir.walk(e) if s[0] == "arg"}


def check(ctx):
    prog = ctx.prog
    check_iter(ctx, prog)
    check_buckets_iter(ctx, prog)


def check_iter(ctx, prog):
    b = ctx.body(K, CI + "$")
    W = lk.where(b)
    rets = b.return_blocks()
    sorts = b.call_sites(r"slice::(<impl \[T\]>::)?sort(_unstable)?_by$|^std::slice::sort(_unstable)?_by$")
    ctx.floor("sort", "sort_by on the bucket buffer", sorts, 1, exact=True)
    ext = b.call_sites(r"SmallVec as std::iter::Extend>::extend$")
    ctx.floor("sort", "buffer.extend", ext, 1, exact=True)
    store = [s for s, k, t in lk.field_effects(b, "iter") if k == "set" and "ClosestIterBuffer::new(" in t]
    ctx.floor("sort", "store of the sorted buffer", store, 1, exact=True)
    for s in sorts:
        e = b.site_expr(s)
        ctx.ob("sort", "the sorted slice is the filled buffer", render(e[2][0]) in ("<smallvec::SmallVec as std::ops::DerefMut>::deref_mut(buffer)", "buffer"), s.loc(), render(e[2][0]))
        cl = lib.closure_of(prog, b, e)
        ok = False
        msg = "no comparator closure"
        if cl is not None:
            rs = lk.ret_sites(cl)
            if len(rs) == 1:
                ce = cl.site_expr(rs[0])
                msg = render(ce)[:400]
                if ce[0] == "call" and re.search(r"kbucket::key::Distance as std::cmp::Ord>::cmp$", strip_generics(ce[1])) and len(ce[2]) == 2:
                    sides = []
                    for x in ce[2]:
                        ds = mir.calls_in(x, r"kbucket::key::KeyBytes::distance$")
                        good = len(ds) == 1 and x is not None and render(ds[0][2][0]) == "std::convert::AsRef::as_ref(^**self.target)"
                        sides.append((good, leaves_args(ds[0][2][1]) if ds else set()))
                    # closure params: _1 = closure env, _2 = a, _3 = b
                    ok = sides[0] == (True, {2}) and sides[1] == (True, {3})
        ctx.ob("sort", "comparator is ascending distance to the target", ok, s.loc(), "cmp(distance(target, <1st arg>), distance(target, <2nd arg>)): " + msg[-260:])
        ctx.ob("sort", "comparator captures the iterator's target", "[self.target]" in render(e), s.loc(), render(e)[-120:])
        if ext and store:
            ok = b.dominates(ext[0].bb, s.bb) and b.dominates(s.bb, store[0].bb) and ext[0].bb not in b.reachable(b.succ[s.bb], stop_nodes=[store[0].bb]) - {store[0].bb}
            ctx.ob("sort", "fill -> sort -> store on every path", ok, s.loc(), "extend bb%d, sort bb%d, store bb%d" % (ext[0].bb, s.bb, store[0].bb))
    for s in store:
        ctx.ob("sort", "the stored buffer is the sorted one", R(b, s) == "std::option::Option::Some{0: libp2p_kad::kbucket::ClosestIterBuffer::new(buffer)}", s.loc(), R(b, s)[:140])
    # --- fill
    for s in ext:
        t = R(b, s)
        src = re.search(r"std::iter::Iterator::take\(libp2p_kad::kbucket::bucket::KBucket::iter\(<std::vec::Vec as std::ops::IndexMut>::index_mut\(self\.table\.buckets, libp2p_kad::kbucket::BucketIndex::get\((.*?)\)\)\), self\.bucket_size\)", t)
        ctx.ob("iter", "buffer is filled from bucket.iter().take(bucket_size) of the selected bucket", src is not None and t.startswith("<smallvec::SmallVec as std::iter::Extend>::extend(buffer, "), s.loc(), t[:200])
        ctx.ob("iter", "no filter between the bucket and the buffer", not re.search(r"Iterator::(filter|skip|step_by|take_while|skip_while|filter_map)\(", t), s.loc(), "only map/take adaptors")
        e = b.site_expr(s)
        for c in [x for x in mir.walk(e) if x[0] == "closure"]:
            cb = prog.closure_body(b, c[1])
            rs = [render(cb.site_expr(x)) for x in lk.ret_sites(cb)]
            ctx.ob("iter", "map closure applies the projection to every element", rs == ["std::ops::Fn::call(^*self.fmap, tuple{0: e})"], lk.where(cb), str(rs))
    idx = [s for s in b.call_sites(r"Index(Mut)?>::index(_mut)?$") if render(b.site_expr(s)[2][0]) == "self.table.buckets"]
    ctx.floor("iter", "table.buckets[..]", idx, 1, exact=True)
    for s in idx:
        e = b.site_expr(s)[2][1]
        ok = False
        msg = render(e)
        if e[0] == "call" and strip_generics(e[1]).endswith("BucketIndex::get") and e[2][0][0] == "field" and e[2][0][1][0] == "local":
            l = e[2][0][1][1]
            fld = e[2][0][2]
            vals = []
            for d in b.defs.get(l, []):
                if d[0] == "stmt":
                    v = b.rvalue_expr(d[3])
                    if v[0] == "agg":
                        vals.append(render(dict(v[4]).get(fld, ("unknown", "?"))))
                    else:
                        vals.append(render(v))
            msg = str(vals)[:300]
            ok = len(vals) == 2 and all(re.match("^" + BN + "$", v) for v in vals)
        ctx.ob("iter", "bucket index is the value yielded by buckets_iter.next()", ok, s.loc(), msg)
    ap = b.call_sites(r"^libp2p_kad::kbucket::bucket::KBucket::apply_pending$")
    it = b.call_sites(r"^libp2p_kad::kbucket::bucket::KBucket::iter$")
    ctx.ob("iter", "pending entry applied before the bucket is read", len(ap) == 1 and len(it) == 1 and b.dominates(ap[0].bb, it[0].bb) and ap[0].bb != it[0].bb
           and render(b.site_expr(ap[0])[2][0]) == render(b.site_expr(it[0])[2][0]), W, "apply_pending dominates bucket.iter() on the same bucket")
    # --- buffer iterator protocol
    nx = b.call_sites(r"^libp2p_kad::<kbucket::ClosestIterBuffer as std::iter::Iterator>::next$")
    ctx.floor("iter", "buffer iterator next()", nx, 1, exact=True)
    some_items = [s for s in lk.ret_sites(b) if s.si is not None and R(b, s).startswith("std::option::Option::Some{")]
    ctx.floor("iter", "item results", some_items, 1)
    for s in some_items:
        t = R(b, s)
        ctx.ob("iter", "items come only from the sorted buffer", t == "std::option::Option::Some{0: libp2p_kad::<kbucket::ClosestIterBuffer as std::iter::Iterator>::next(iter)@Some.0}", s.loc(), t[:160])
    restore = [s for s, k, t in lk.field_effects(b, "iter") if k == "set" and t == "std::option::Option::Some{0: iter}"]
    for n in nx:
        some = tg(lib.switch_edges_on_site(b, n, {"Some"}))
        none = tg(lib.switch_edges_on_site(b, n, {"None"}))
        got = cnt(b, some, rets, restore) if some else None
        ctx.ob("iter", "partially consumed buffer is put back exactly once", got == (1, 1), n.loc(), "self.iter = Some(iter) on the item edge: %s" % (got,))
        got = cnt(b, some, rets, b.call_sites(CB)) if some else None
        ctx.ob("iter", "no bucket is skipped while the buffer still has items", got == (0, 0), n.loc(), "buckets_iter.next() on the item edge: %s" % (got,))
        clear = lk.recv_calls(b, r"SmallVec::clear$", r"^iter\.buffer$")
        got = cnt(b, none, lib.bbs(ext), clear) if none and ext else None
        ctx.ob("iter", "a reused buffer is cleared before it is refilled", got == (1, 1), n.loc(), "SmallVec::clear(iter.buffer) between exhaustion and refill: %s" % (got,))
        got = cnt(b, none, lib.bbs(ext) + rets, b.call_sites(CB)) if none else None
        ctx.ob("iter", "exhausted buffer => exactly one new bucket index is drawn", got == (1, 1), n.loc(), str(got))
    tk = lk.recv_calls(b, r"Option::take$", r"^self\.iter$")
    none0 = tg(lib.switch_edges_on(b, r"^discr\(std::option::Option::take\(self\.iter\)\)$", {"None"}))
    got = cnt(b, none0, lib.bbs(ext) + rets, b.call_sites(CB)) if none0 else None
    ctx.ob("iter", "first call draws exactly one bucket index", len(tk) == 1 and got == (1, 1), W, str(got))
    # --- buffer iterator itself
    bi = ctx.body(K, r"^libp2p_kad::<kbucket::ClosestIterBuffer as std::iter::Iterator>::next$")
    fx = lk.field_effects(bi, "index")
    ok = len(fx) == 1 and fx[0][1] == "set" and fx[0][2] == "AddWithOverflow(self.index, 1).0"
    ctx.ob("iter", "buffer cursor advances by one per item", ok, lk.where(bi), str([(k, t) for _, k, t in fx]))
    g = [R(bi, s) for s in bi.call_sites(r"slice::(<impl \[T\]>::)?get_mut$")]
    ctx.ob("iter", "buffer item is read at the cursor", g == ["core::slice::get_mut(<smallvec::SmallVec as std::ops::DerefMut>::deref_mut(self.buffer), self.index)"], lk.where(bi), str(g))
    if fx:
        cont = tg(lib.switch_edges_on(bi, r"^discr\(<std::option::Option as std::ops::Try>::branch\(core::slice::get_mut\(", {"Continue"}))
        got = cnt(bi, cont, bi.return_blocks(), [fx[0][0]]) if cont else None
        ctx.ob("iter", "cursor advanced on every yielded item", got == (1, 1), lk.where(bi), str(got))
    bn = ctx.body(K, r"^libp2p_kad::kbucket::ClosestIterBuffer::new$")
    ag = [R(bn, s) for s in bn.agg_sites(r"kbucket::ClosestIterBuffer$")]
    ctx.ob("iter", "buffer cursor starts at 0", ag == ["libp2p_kad::kbucket::ClosestIterBuffer::ClosestIterBuffer{buffer: buffer, index: 0}"], lk.where(bn), str(ag))
    # --- constructors
    for fn in ("closest", "closest_keys"):
        c = ctx.body(K, r"^libp2p_kad::kbucket::KBucketsTable::%s$" % fn)
        ag = [R(c, s) for s in c.agg_sites(r"kbucket::ClosestIter$")]
        ok = len(ag) == 1 and re.match(r"^libp2p_kad::kbucket::ClosestIter::ClosestIter\{target: target, table: self, buckets_iter: libp2p_kad::kbucket::ClosestBucketsIter::new\(libp2p_kad::kbucket::key::KeyBytes::distance\(std::convert::AsRef::as_ref\(self\.local_key\), target\)\), iter: std::option::Option::None\{\}, fmap: closure:.*, bucket_size: self\.bucket_size\}$", ag[0]) is not None
        ctx.ob("ctor", fn + ": buckets ordered by distance(local_key, target), sorted against the same target, take(bucket_size of the table)", ok, lk.where(c), str(ag)[:300])
    fm = ctx.body(K, r"^libp2p_kad::kbucket::KBucketsTable::closest_keys::\{closure#0\}$")
    rs = [R(fm, s) for s in lk.ret_sites(fm)]
    ctx.ob("ctor", "closest_keys projects each node to its own key", rs == ["std::clone::Clone::clone(arg2.0.key)"], lk.where(fm), str(rs))
    fm = ctx.body(K, r"^libp2p_kad::kbucket::KBucketsTable::closest::\{closure#0\}$")
    rs = [R(fm, s) for s in lk.ret_sites(fm)]
    ctx.ob("ctor", "closest projects each node to a view of itself", rs == ["libp2p_kad::kbucket::entry::EntryView::EntryView{node: libp2p_kad::<kbucket::bucket::Node as std::clone::Clone>::clone(arg2.0), status: arg2.1}"], lk.where(fm), str(rs)[:200])
    ev = ctx.body(K, r"kbucket::entry::EntryView as std::convert::AsRef>::as_ref$")
    rs = [R(ev, s) for s in lk.ret_sites(ev)]
    ctx.ob("ctor", "EntryView is compared by its node key", rs == ["std::convert::AsRef::as_ref(self.node.key)"], lk.where(ev), str(rs))
    tn = ctx.body(K, r"^libp2p_kad::kbucket::KBucketsTable::new$")
    ag = [R(tn, s) for s in tn.agg_sites(r"kbucket::KBucketsTable$")]
    ctx.ob("ctor", "table.bucket_size = config.bucket_size (= every bucket's capacity)", len(ag) == 1 and "bucket_size: config.bucket_size" in ag[0], lk.where(tn), str(ag)[:240])
    kn = ctx.body(K, r"^libp2p_kad::kbucket::bucket::KBucket::new$")
    ag = [R(kn, s) for s in kn.agg_sites(r"kbucket::bucket::KBucket$")]
    ctx.ob("ctor", "bucket capacity = config.bucket_size", len(ag) == 1 and "capacity: config.bucket_size" in ag[0], lk.where(kn), str(ag)[:200])
    cl = [c for c in prog.children(tn)]
    rs = [render(c.site_expr(s)) for c in cl for s in lk.ret_sites(c)]
    ctx.ob("ctor", "every bucket of the table is built from the same config", rs == ["libp2p_kad::kbucket::bucket::KBucket::new(^config)"], lk.where(tn), str(rs))
    nb = prog.const(K, r"^libp2p_kad::kbucket::NUM_BUCKETS$").get("v")
    ctx.ob("ctor", "NUM_BUCKETS == 256 (one per bit of the 256-bit distance)", nb == 256, msg=str(nb))
    t = " ".join(R(tn, s) for s in tn.call_sites())
    ctx.ob("ctor", "the table has NUM_BUCKETS buckets", "std::ops::Range::Range{start: 0, end: const:libp2p_kad::kbucket::NUM_BUCKETS}" in t, lk.where(tn), t[:200])


def check_buckets_iter(ctx, prog):
    R_ = "buckets-fsm"
    # --- new
    n = ctx.body(K, r"^libp2p_kad::kbucket::ClosestBucketsIter::new$")
    st = {}
    for s in n.agg_sites(r"kbucket::ClosestBucketsIterState$"):
        gs = {g[0]: g[1] for g in n.guards_on_all_paths(s.bb)}
        lab = gs.get("discr(libp2p_kad::kbucket::BucketIndex::new(distance))")
        st["|".join(sorted(lab)) if lab else "?"] = R(n, s)
    ok = st == {"Some": "libp2p_kad::kbucket::ClosestBucketsIterState::Start{0: libp2p_kad::kbucket::BucketIndex::new(distance)@Some.0}",
                "None": "libp2p_kad::kbucket::ClosestBucketsIterState::Start{0: %s}" % BI0}
    ctx.ob(R_, "new: starts at the bucket covering the target (bucket 0 for distance 0)", ok, lk.where(n), str(st)[:300])
    ag = [R(n, s) for s in n.agg_sites(r"kbucket::ClosestBucketsIter$")]
    ctx.ob(R_, "new: keeps the distance it was given", ag == ["libp2p_kad::kbucket::ClosestBucketsIter::ClosestBucketsIter{distance: distance, state: state}"], lk.where(n), str(ag))
    # --- next_in / next_out
    ni = ctx.body(K, r"^libp2p_kad::kbucket::ClosestBucketsIter::next_in$")
    rs = [R(ni, s) for s in lk.ret_sites(ni)]
    ok = len(rs) == 1 and re.match(r"^std::iter::Iterator::find_map\(std::iter::Iterator::rev\(std::ops::Range::Range\{start: 0, end: libp2p_kad::kbucket::BucketIndex::get\(i\)\}\), closure:.*\[self\]\)$", rs[0]) is not None
    ctx.ob(R_, "next_in searches strictly below the current index, descending", ok, lk.where(ni), str(rs)[:260])
    no = ctx.body(K, r"^libp2p_kad::kbucket::ClosestBucketsIter::next_out$")
    rs = [R(no, s) for s in lk.ret_sites(no)]
    ok = len(rs) == 1 and re.match(r"^std::iter::Iterator::find_map\(std::ops::Range::Range\{start: AddWithOverflow\(libp2p_kad::kbucket::BucketIndex::get\(i\), 1\)\.0, end: const:libp2p_kad::kbucket::NUM_BUCKETS\}, closure:.*\[self\]\)$", rs[0]) is not None
    ctx.ob(R_, "next_out searches strictly above the current index up to NUM_BUCKETS, ascending", ok, lk.where(no), str(rs)[:260])
    for fn, want_true in (("next_in", "Some"), ("next_out", "None")):
        c = ctx.body(K, r"^libp2p_kad::kbucket::ClosestBucketsIter::%s::\{closure#0\}$" % fn)
        sw = lk.switch_blocks(c, r"^libp2p_kad::kbucket::key::U256::bit\(\^\*self\.distance\.0, i\)$")
        tab = {}
        if len(sw) == 1:
            for t, ls in c.switch_info(sw[0])[1].items():
                vals = {R(c, s) for s in lk.ret_sites(c) if s.bb in c.reachable([t])}
                tab["|".join(sorted(map(str, ls)))] = sorted(vals)
        some = "std::option::Option::Some{0: libp2p_kad::kbucket::BucketIndex::BucketIndex{0: i}}"
        none = "std::option::Option::None{}"
        want = {"true": [some if want_true == "Some" else none], "false": [none if want_true == "Some" else some]}
        ctx.ob(R_, "%s yields exactly the %s distance bits" % (fn, "set" if want_true == "Some" else "unset"), tab == want, lk.where(c), str(tab)[:300])
    # --- next()
    b = ctx.body(K, CB)
    W = lk.where(b)
    stores = [(s, k, t) for s, k, t in lk.field_effects(b, "state")]
    ctx.floor(R_, "state stores", stores, 5)
    ctx.ob(R_, "state is only replaced as a whole", all(k == "set" for _, k, _ in stores), W, str([k for _, k, _ in stores]))
    arms = {}
    for v in ("Start", "ZoomIn", "ZoomOut", "Done"):
        ent = tg(lib.arm_entry(b, r"^discr\(self\.state\)$", v))
        ctx.ob(R_, "floor:arm " + v, len(ent) == 1, W, nontrivial=False, msg=str(ent))
        arms[v] = ent
    if not all(arms.values()):
        return
    S = "libp2p_kad::kbucket::ClosestBucketsIterState::"

    def arm_rows(v):
        """[(ret site, rendered result, [rendered state stores on the way], count)]"""
        ent = arms[v]
        reach = b.reachable(ent)
        other = set()
        for w, e2 in arms.items():
            if w != v:
                other |= b.reachable(e2) - set(b.return_blocks())
        rows = []
        for s in lk.ret_sites(b):
            if s.bb not in reach or (s.bb in other and not b.dominates(ent[0], s.bb)):
                continue
            sts = [x for x, _, _ in stores if x.bb in reach and (b.dominates(x.bb, s.bb))]
            rows.append((s, R(b, s), [R(b, x) for x in sts], cnt(b, ent, [s.bb], [x for x, _, _ in stores])))
        return rows

    cur = {"Start": "self.state@Start.0", "ZoomIn": "self.state@ZoomIn.0", "ZoomOut": "self.state@ZoomOut.0"}
    # Start
    rows = arm_rows("Start")
    ok = len(rows) == 1 and rows[0][1] == "std::option::Option::Some{0: %s}" % cur["Start"] and rows[0][2] == [S + "ZoomIn{0: %s}" % cur["Start"]] and rows[0][3] == (1, 1)
    ctx.ob(R_, "Start(i): yields i and moves to ZoomIn(i)", ok, W, str([(r[1], r[2], r[3]) for r in rows])[:300])
    # ZoomIn
    rows = arm_rows("ZoomIn")
    NI = "libp2p_kad::kbucket::ClosestBucketsIter::next_in(self, %s)" % cur["ZoomIn"]
    in_some = lib.switch_edges_on(b, "^discr\\(" + re.escape(NI) + "\\)$", {"Some"})
    in_none = lib.switch_edges_on(b, "^discr\\(" + re.escape(NI) + "\\)$", {"None"})
    CURV = r"(libp2p_kad::kbucket::BucketIndex::get\(self\.state@ZoomIn\.0\)|self\.state@ZoomIn\.0\.0)"

    def nz(c, r, l):
        m = re.match(r"^(Ne|Eq|Gt|Lt)\((.*), (.*)\)$", r)
        if m and ((re.match("^" + CURV + "$", m.group(2)) and m.group(3) == "0") or (re.match("^" + CURV + "$", m.group(3)) and m.group(2) == "0")):
            op = m.group(1)
            if op == "Lt" and m.group(2) != "0":
                return False
            if op == "Gt" and m.group(3) != "0":
                return False
            return l == ("false" if op == "Eq" else "true")
        if re.match("^" + CURV + "$", r):
            return l == "otherwise"
        return False

    def isz(c, r, l):
        m = re.match(r"^(Ne|Eq)\((.*), (.*)\)$", r)
        if m and ((re.match("^" + CURV + "$", m.group(2)) and m.group(3) == "0") or (re.match("^" + CURV + "$", m.group(3)) and m.group(2) == "0")):
            return l == ("true" if m.group(1) == "Eq" else "false")
        if re.match("^" + CURV + "$", r):
            return l == 0
        return False
    nz_edges = b.guard_edges(nz)
    z_edges = b.guard_edges(isz)
    kinds = set()
    for s, r, sts, n_ in rows:
        if r == "std::option::Option::Some{0: %s@Some.0}" % NI:
            kinds.add("in")
            ctx.ob(R_, "ZoomIn: state carries the yielded index", sts == [S + "ZoomIn{0: %s@Some.0}" % NI] and n_ == (1, 1), s.loc(), "%s %s" % (sts, n_))
            ctx.ob(R_, "ZoomIn: yields next_in only when it found one", bool(in_some) and b.must_pass_edges(s.bb, in_some), s.loc(), "")
        elif r == "std::option::Option::Some{0: %s}" % BI0:
            kinds.add("zero")
            ctx.ob(R_, "ZoomIn: turning point stores ZoomOut(0) with the yield of bucket 0", sts == [S + "ZoomOut{0: %s}" % BI0] and n_ == (1, 1), s.loc(), "%s %s" % (sts, n_))
            ctx.ob(R_, "ZoomIn: bucket 0 is yielded only after zooming in is exhausted", bool(in_none) and b.must_pass_edges(s.bb, in_none), s.loc(), "next_in(i) is None")
            ok = bool(nz_edges) and b.must_pass_edges(s.bb, nz_edges)
            ctx.ob(R_, "ZoomIn: bucket 0 is yielded only if it was not visited yet (current index != 0)", ok, s.loc(),
                   "ZoomIn(0) is entered only together with yielding bucket 0 (Start(0) or next_in == 0); without an `i != 0` guard bucket 0 is enumerated twice "
                   "whenever bit 0 of the distance is set or the distance is 0 or 1" if not ok else "guarded by current index != 0")
        elif s.si is None and re.match(r"^libp2p_kad::<kbucket::ClosestBucketsIter as std::iter::Iterator>::next\(self\)$", r):
            kinds.add("delegate")
            ok = sts in ([S + "ZoomOut{0: %s}" % cur["ZoomIn"]], [S + "ZoomOut{0: %s}" % BI0]) and n_ == (1, 1)
            ctx.ob(R_, "ZoomIn: continuing without a yield first moves to ZoomOut(current index)", ok, s.loc(), "%s %s" % (sts, n_))
            ctx.ob(R_, "ZoomIn: continues zooming out without a yield only at index 0 with zoom-in exhausted", bool(z_edges) and bool(in_none) and b.must_pass_edges(s.bb, z_edges) and b.must_pass_edges(s.bb, in_none), s.loc(), "")
            st_site = [x for x, _, _ in stores if x.bb == s.bb or b.dominates(x.bb, s.bb)]
            ctx.ob(R_, "ZoomIn: state is updated before the recursive step", all(x.si is not None for x in st_site), s.loc(), "")
        else:
            kinds.add("?")
            ctx.ob(R_, "ZoomIn: every result is next_in, the turning point, or a continuation", False, s.loc(), r[:200])
    ctx.ob(R_, "floor:ZoomIn results", {"in", "zero"} <= kinds, W, nontrivial=False, msg=str(sorted(kinds)))
    # ZoomOut
    rows = arm_rows("ZoomOut")
    NO = "libp2p_kad::kbucket::ClosestBucketsIter::next_out(self, %s)" % cur["ZoomOut"]
    out_some = lib.switch_edges_on(b, "^discr\\(" + re.escape(NO) + "\\)$", {"Some"})
    out_none = lib.switch_edges_on(b, "^discr\\(" + re.escape(NO) + "\\)$", {"None"})
    kinds = set()
    for s, r, sts, n_ in rows:
        if r == "std::option::Option::Some{0: %s@Some.0}" % NO:
            kinds.add("out")
            ctx.ob(R_, "ZoomOut: state carries the yielded index", sts == [S + "ZoomOut{0: %s@Some.0}" % NO] and n_ == (1, 1), s.loc(), "%s %s" % (sts, n_))
            ctx.ob(R_, "ZoomOut: yields next_out only when it found one", bool(out_some) and b.must_pass_edges(s.bb, out_some), s.loc(), "")
        elif r == "std::option::Option::None{}":
            kinds.add("done")
            ctx.ob(R_, "ZoomOut: exhausted => Done, yields None", sts == [S + "Done{}"] and n_ == (1, 1) and bool(out_none) and b.must_pass_edges(s.bb, out_none), s.loc(), "%s %s" % (sts, n_))
        else:
            kinds.add("?")
            ctx.ob(R_, "ZoomOut: every result is next_out or the end", False, s.loc(), r[:200])
    ctx.ob(R_, "floor:ZoomOut results", kinds == {"out", "done"}, W, nontrivial=False, msg=str(sorted(kinds)))
    rows = arm_rows("Done")
    ok = len(rows) == 1 and rows[0][1] == "std::option::Option::None{}" and rows[0][2] == [] and rows[0][3] == (0, 0)
    ctx.ob(R_, "Done: yields None forever", ok, W, str([(r[1], r[2], r[3]) for r in rows]))
