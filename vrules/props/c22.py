"""C22 global-only transport never dials non-global IPs — finite-partition abstract evaluation against the IANA registries (K7) + guards (K1)."""
import re

from .. import absint, ipatoms, lib, mir
from ..mir import render

EXPLANATION = ("ipv4_global::is_global and ipv6_global::is_global (with their local helpers inlined; std::net predicates are trusted atoms with "
               "their documented prefix sets) are evaluated abstractly on cells = products of per-octet / per-segment value sets; cells are "
               "split until every comparison is uniform, which partitions the ENTIRE 2^32 / 2^128 space into cells with one definite "
               "result. Every cell mapped to `global` must be disjoint from every IANA block marked not globally reachable, and every "
               "cell mapped to `non-global` must lie inside the union of listed special-purpose blocks (so addresses outside every block "
               "are always passed on). Transport::dial: inner.dial only after is_global == true on the leading Ip4/Ip6 component; every "
               "other first component returns MultiaddrNotSupported without dialing.")
ASSUMPTIONS = ["std::net::Ipv4Addr/Ipv6Addr predicates have their documented prefix sets (tables in vrules/ipatoms.py)",
               "IANA special-purpose registries as transcribed in tables/iana_special_v{4,6}.json; entries newer than the copied std implementation "
               "(2001:30::/28, 3fff::/20, 5f00::/16, 2001:1::3/128, 100:0:0:1::/64) and reachable/N-A blocks are don't-care"]
C = "libp2p_core"


def classify(ctx, name, crate, body_pat, width, ncomp, comps_pat, atoms, table_file):
    prog = ctx.prog
    b = ctx.body(crate, body_pat)
    ev = absint.Evaluator(prog, crate, width, ncomp, comps_pat, atoms, whole_pat=r"from_be_bytes$")
    try:
        part = ev.partition(b)
    except absint.Unsupported as e:
        ctx.ob("iana", name + ": abstract evaluation completed", False, "%s:%d" % (b.file, b.line), "fail closed: construct outside the abstract domain: %s" % e)
        return
    for n in ev.visited_bodies:
        ctx.bodies.add(n)
    total = sum(absint.size(c) for c, _ in part)
    ctx.ob("iana", name + ": cells partition the whole address space", total == 1 << (width * ncomp), "%s:%d" % (b.file, b.line),
           "%d cells after %d splits cover %d addresses (space = 2^%d)" % (len(part), ev.nsplits, total, width * ncomp))
    table = ipatoms.load(table_file, width, ncomp)
    viol, st = ipatoms.check_partition(part, table)
    pas = [v for v in viol if v[0] == "passes-nonglobal"]
    ref = [v for v in viol if v[0] == "refuses-global"]
    ctx.ob("iana", name + ": no not-globally-reachable block is classified global", not pas, "%s:%d" % (b.file, b.line),
           ("all %d must-refuse regions are disjoint from the 'global' cells" % st["must_refuse_regions"]) if not pas else
           "; ".join("%s: %s classified global" % (v[1], absint.describe(v[2], width)) for v in pas[:4]))
    ctx.ob("iana", name + ": nothing outside the special-purpose blocks is classified non-global", not ref, "%s:%d" % (b.file, b.line),
           ("every 'non-global' cell lies inside the %d listed blocks" % st["listed_blocks"]) if not ref else
           "; ".join("%s refused although outside every block" % absint.describe(v[2], width) for v in ref[:4]))
    ctx.note("%s: %s" % (name, st))
    # sample cells for the evidence
    for cell, res in part[:3]:
        ctx.ob("iana", name + ": cell sample", True, "", "%s -> %s" % (absint.describe(cell, width), "global" if res else "non-global"), nontrivial=False)


def check(ctx):
    prog = ctx.prog
    classify(ctx, "ipv4", C, r"global_only::ipv4_global::is_global$", 8, 4, r"net::Ipv4Addr::octets$", ipatoms.v4_atoms(), "iana_special_v4.json")
    classify(ctx, "ipv6", C, r"global_only::ipv6_global::is_global$", 16, 8, r"net::Ipv6Addr::segments$", ipatoms.v6_atoms(), "iana_special_v6.json")
    # ---- dial
    d = ctx.body(C, r"<transport::global_only::Transport as transport::Transport>::dial$")
    inner = d.call_sites(r"Transport>::dial$|Transport::dial$")
    ctx.floor("dial", "inner.dial call sites", inner, 2)
    for s in inner:
        r = render(d.site_expr(s))
        ctx.ob("dial", "dials the inner transport with the given address", r.startswith("<T as transport::Transport>::dial(self.inner, addr, opts)") or "self.inner, addr, opts)" in r, s.loc(), r[:160])
        ctx.guarded("dial", "inner dial only if the leading IP is global", s,
                    lambda c, rr, l: (l == "true" and re.match(r"^libp2p_core::transport::global_only::ipv[46]_global::is_global\(.*@Some\.0@Ip[46]\.0\)$", rr) is not None) or
                    (l == "false" and re.match(r"^Not\(libp2p_core::transport::global_only::ipv[46]_global::is_global\(.*@Some\.0@Ip[46]\.0\)\)$", rr) is not None), "is_global(first ip)")
        ctx.guarded("dial", "inner dial only if the first component is an IP", s,
                    lambda c, rr, l: l in ("Ip4", "Ip6") and rr.startswith("discr(") and re.search(r"Iterator>::next\(\w+::Multiaddr::iter\(addr\)\)@Some\.0\)$", rr) is not None, "addr.iter().next() is Ip4/Ip6")
    # the checked address is the first component of the dialled address; v4 check for Ip4, v6 for Ip6
    for bi in sorted(d.live):
        info = d.switch_info(bi)
        if info:
            m = re.match(r"^(Not\()?libp2p_core::transport::global_only::ipv([46])_global::is_global\((.*)\)\)?$", render(info[0]))
            if m:
                ok = re.search(r"Iterator>::next\(\w+::Multiaddr::iter\(addr\)\)@Some\.0@Ip%s\.0$" % m.group(2), m.group(3)) is not None
                ctx.ob("dial", "ipv%s table applied to the address's own first Ip%s component" % (m.group(2), m.group(2)), ok, "%s:%d" % (d.file, d.blocks[bi]["term"].get("l", 0)), m.group(3)[-120:])
    # non-IP first component / non-global => MultiaddrNotSupported, no dial
    first = [bi for bi in d.live if d.switch_info(bi) and render(d.switch_info(bi)[0]).startswith("discr(") and render(d.switch_info(bi)[0]).endswith("Multiaddr::iter(addr))@Some.0)")]
    ctx.floor("dial", "first-component switch", first, 1)
    for bi in first:
        cond, labs = d.switch_info(bi)
        for tgt, ls in labs.items():
            if ls & {"Ip4", "Ip6"}:
                continue
            r = d.reachable([tgt])
            ctx.ob("dial", "any other first component is refused without dialing", not (set(lib.bbs(inner)) & r), "%s:%d" % (d.file, d.line), "%d non-IP variants reach no inner.dial" % len(ls))
            errs = [x for x in d.defs[0] if x[1] in r and x[0] == "stmt" and "TransportError::MultiaddrNotSupported{0: addr}" in render(d.rvalue_expr(x[3]))]
            ctx.ob("dial", "refusal is MultiaddrNotSupported(addr)", len(errs) >= 1, "%s:%d" % (d.file, d.line), "Err(MultiaddrNotSupported(addr))")
    none = lib.switch_edges_on(d, r"^discr\(<\w+(::multiaddr)?::Iter as std::iter::Iterator>::next\(\w+::Multiaddr::iter\(addr\)\)\)$", {"None"})
    for _, t in none:
        ctx.ob("dial", "empty address is refused without dialing", not (set(lib.bbs(inner)) & d.reachable([t])), msg="None => MultiaddrNotSupported")
    for nm in ("false", "true"):
        pass
    ng = lib.switch_edges_on(d, r"^libp2p_core::transport::global_only::ipv[46]_global::is_global\(", {"false"}) | lib.switch_edges_on(d, r"^Not\(libp2p_core::transport::global_only::ipv[46]_global::is_global\(", {"true"})
    ctx.ob("dial", "floor:non-global edges", len(ng) == 2, nontrivial=False, msg=str(sorted(ng)))
    for _, t in ng:
        r = d.reachable([t])
        ctx.ob("dial", "non-global IP => no inner dial", not (set(lib.bbs(inner)) & r), msg="non-global edge cannot reach inner.dial")
        errs = [x for x in d.defs[0] if x[1] in r and x[0] == "stmt" and "TransportError::MultiaddrNotSupported{0: addr}" in render(d.rvalue_expr(x[3]))]
        ctx.ob("dial", "non-global IP => MultiaddrNotSupported(addr)", len(errs) >= 1, msg="Err(MultiaddrNotSupported(addr))")
