"""C22 global-only transport never dials non-global IPs — finite-partition abstract evaluation against the IANA registries (K7) + guards (K1)."""
import re

from .. import absint, ipatoms, lib, mir
from .. import lib_sec as S
from ..mir import render, strip_generics

EXPLANATION = ("ipv4_global::is_global and ipv6_global::is_global (with their local helpers inlined; std::net predicates are trusted atoms with "
               "their documented prefix sets) are evaluated abstractly on cells = products of per-octet / per-segment value sets; cells are "
               "split until every comparison is uniform, which partitions the ENTIRE 2^32 / 2^128 space into cells with one definite "
               "result. Every cell mapped to `global` must be disjoint from every IANA block marked not globally reachable, and every "
               "cell mapped to `non-global` must lie inside the union of listed special-purpose blocks (so addresses outside every block "
               "are always passed on). Transport::dial: inner.dial only after is_global == true on the leading Ip4/Ip6 component; every "
               "other first component returns MultiaddrNotSupported without dialing.")
ASSUMPTIONS = ["std::net::Ipv4Addr/Ipv6Addr predicates have their documented prefix sets (tables in vrules/ipatoms.py)",
               "IANA special-purpose registries as transcribed in tables/iana_special_v{4,6}.json; entries newer than the copied std implementation "
               "(2001:30::/28, 3fff::/20, 5f00::/16, 2001:1::3/128, 100:0:0:1::/64) and reachable/N-A blocks are don't-care"]
C = "libp2p_core"

SELFTEST = [
    {"mutation": "Ip6 arm dials without the is_global check", "caught_by": "dial/inner dial only if the leading IP is global"},
    {"neutral": "neutral/sec/09 (arm bodies extracted into the private helper dial_if_global(ip, is_global, addr, opts))", "silent": True},
]

def classify(ctx, name, crate, body_pat, width, ncomp, comps_pat, atoms, table_file):
    prog = ctx.prog
    b = ctx.body(crate, body_pat)
    ev = absint.Evaluator(prog, crate, width, ncomp, comps_pat, atoms, whole_pat=r"from_be_bytes$")
    try:
        part = ev.partition(b)
    except absint.Unsupported as e:
        ctx.ob("iana", name + ": abstract evaluation completed", False, "%s:%d" % (b.file, b.line), "fail closed: construct outside the abstract domain: %s" % e)
        return
    for n in ev.visited_bodies:
        ctx.bodies.add(n)
    total = sum(absint.size(c) for c, _ in part)
    ctx.ob("iana", name + ": cells partition the whole address space", total == 1 << (width * ncomp), "%s:%d" % (b.file, b.line),
           "%d cells after %d splits cover %d addresses (space = 2^%d)" % (len(part), ev.nsplits, total, width * ncomp))
    table = ipatoms.load(table_file, width, ncomp)
    viol, st = ipatoms.check_partition(part, table)
    pas = [v for v in viol if v[0] == "passes-nonglobal"]
    ref = [v for v in viol if v[0] == "refuses-global"]
    ctx.ob("iana", name + ": no not-globally-reachable block is classified global", not pas, "%s:%d" % (b.file, b.line),
           ("all %d must-refuse regions are disjoint from the 'global' cells" % st["must_refuse_regions"]) if not pas else
           "; ".join("%s: %s classified global" % (v[1], absint.describe(v[2], width)) for v in pas[:4]))
    ctx.ob("iana", name + ": nothing outside the special-purpose blocks is classified non-global", not ref, "%s:%d" % (b.file, b.line),
           ("every 'non-global' cell lies inside the %d listed blocks" % st["listed_blocks"]) if not ref else
           "; ".join("%s refused although outside every block" % absint.describe(v[2], width) for v in ref[:4]))
    ctx.note("%s: %s" % (name, st))
    # sample cells for the evidence
    for cell, res in part[:3]:
        ctx.ob("iana", name + ": cell sample", True, "", "%s -> %s" % (absint.describe(cell, width), "global" if res else "non-global"), nontrivial=False)


def check(ctx):
    prog = ctx.prog
    classify(ctx, "ipv4", C, r"global_only::ipv4_global::is_global$", 8, 4, r"net::Ipv4Addr::octets$", ipatoms.v4_atoms(), "iana_special_v4.json")
    classify(ctx, "ipv6", C, r"global_only::ipv6_global::is_global$", 16, 8, r"net::Ipv6Addr::segments$", ipatoms.v6_atoms(), "iana_special_v6.json")
    # ---- dial
    dial_policy(ctx)


def callee_is(e, pat):
    return e[0] == "call" and re.search(pat, strip_generics(e[1])) is not None


def dial_policy(ctx):
    """inner.dial only after is_global == true on the leading Ip4/Ip6 component (v4 table for Ip4, v6 for Ip6); non-global and every
    other first component => MultiaddrNotSupported(addr) without dialing.  The test + dial may sit in the match arm or in a
    crate-local helper called from the arm (followed one level)."""
    prog = ctx.prog
    d = S.canon_args(ctx.body(C, r"<transport::global_only::Transport as transport::Transport>::dial$"), ["self", "addr", "opts"])
    adt = prog.adt(C, r"transport::global_only::Transport$")
    inner_f = [f["n"] for f in adt["variants"][0]["fields"]]
    inner_f = inner_f[0] if len(inner_f) == 1 else "inner"

    def inner_dials(b):
        return [s for s in b.call_sites(r"Transport>::dial$|Transport::dial$") if S.self_field(b.site_expr(s)[2][0], inner_f)]

    def first_comp(e):
        """e is the first component of the dialled address: success payload of addr.iter().next()"""
        e = S.peel(S.norm(e))
        return (callee_is(e, r"^ok$") and callee_is(e[2][0], r"Iterator>?::next$") and callee_is(S.peel(e[2][0][2][0]), r"Multiaddr::iter$")
                and S.is_arg(S.peel(S.peel(e[2][0][2][0])[2][0]), 2))

    def first_ip(e, ver=None):
        """e is the payload of the first component matched as Ip4 / Ip6; returns the version or None"""
        e = S.peel(S.norm(e))
        if e[0] == "field" and e[2] == "0" and e[1][0] == "downcast" and e[1][2] in ("Ip4", "Ip6") and first_comp(e[1][1]):
            v = e[1][2][-1]
            return v if ver in (None, v) else None
        return None

    def global_test(e):
        """e is ipv{4,6}_global::is_global(<first IpN payload>) with matching N: returns N"""
        m = re.search(r"global_only::ipv([46])_global::is_global$", strip_generics(e[1])) if e[0] == "call" else None
        if m and len(e[2]) == 1 and first_ip(e[2][0], m.group(1)):
            return m.group(1)
        return None
    direct = inner_dials(d)
    via = []            # (call site in dial, helper body, helper's inner dial sites)
    for s in d.call_sites(r"^libp2p_core::transport::global_only::"):
        h = S.crate_callee(prog, d, s)
        if h is not None and h is not d and inner_dials(h) and S.is_arg(S.peel(d.site_expr(s)[2][0]), 1):
            via.append((s, h, inner_dials(h)))
    ctx.floor("dial", "inner.dial call sites", direct + [s for s, _, _ in via], 2)
    is_ip = d.guard_edges(lambda c, r, l: l in ("Ip4", "Ip6") and c[0] == "discr" and first_comp(c[1]))
    glob_true, _ = S.truth_edges(d, lambda c: global_test(c) is not None)
    _, glob_false = S.truth_edges(d, lambda c: global_test(c) is not None, close=False)
    for s in direct:
        e = d.site_expr(s)
        ctx.ob("dial", "dials the inner transport with the given address", len(e[2]) == 3 and S.is_arg(S.peel(e[2][1]), 2) and S.is_arg(S.peel(e[2][2]), 3), s.loc(), render(e)[:160])
        S.guarded(ctx, "dial", "inner dial only if the leading IP is global", s, glob_true, "is_global(first ip)")
        S.guarded(ctx, "dial", "inner dial only if the first component is an IP", s, is_ip, "addr.iter().next() is Ip4/Ip6")
    ng_edges = set(glob_false)
    for s, h, hd in via:
        ctx.use(h)
        a = d.site_expr(s)[2]
        S.guarded(ctx, "dial", "inner dial only if the first component is an IP", s, is_ip, "addr.iter().next() is Ip4/Ip6")
        # which parameter of the helper decides: a bool parameter, or the IP parameter tested inside with is_global
        decided = False
        for k in range(2, h.argc + 1):
            if h.locals[k] == "bool":
                t_e, _ = S.truth_edges(h, lambda c, k=k: S.is_arg(c, k))
                _, f_e = S.truth_edges(h, lambda c, k=k: S.is_arg(c, k), close=False)
                actual_ok = k - 1 < len(a) and a[k - 1][0] == "call" and global_test(a[k - 1]) is not None
            else:
                gp = lambda c, k=k: callee_is(c, r"global_only::ipv[46]_global::is_global$") and len(c[2]) == 1 and S.is_arg(S.peel(c[2][0]), k)
                t_e, _ = S.truth_edges(h, gp)
                _, f_e = S.truth_edges(h, gp, close=False)
                ver = {re.search(r"ipv([46])_global", strip_generics(x[1])).group(1) for bi in h.live if h.switch_info(bi) for x in mir.walk(h.switch_info(bi)[0])
                       if x[0] == "call" and re.search(r"ipv[46]_global::is_global$", strip_generics(x[1])) and len(x[2]) == 1 and S.is_arg(S.peel(x[2][0]), k)}
                actual_ok = k - 1 < len(a) and len(ver) == 1 and first_ip(a[k - 1], next(iter(ver))) is not None
            if not t_e or not all(h.must_pass_edges(x.bb, t_e) for x in hd):
                continue
            decided = True
            ctx.ob("dial", "inner dial only if the leading IP is global", actual_ok, s.loc(),
                   "helper %s dials only when its parameter #%d holds; the caller passes %s" % (h.short[-40:], k - 1, S.nrender(a[k - 1])[:120] if k - 1 < len(a) else "?"))
            for x in hd:
                e = h.site_expr(x)
                j = [i for i in range(2, h.argc + 1) if S.is_arg(S.peel(e[2][1]), i)]
                ctx.ob("dial", "dials the inner transport with the given address", len(j) == 1 and j[0] - 1 < len(a) and S.is_arg(S.peel(a[j[0] - 1]), 2), x.loc(), render(e)[:160])
            for _, t in f_e:
                r = h.reachable([t])
                ctx.ob("dial", "non-global IP => no inner dial", not ({x.bb for x in hd} & r), msg="non-global edge of the helper cannot reach inner.dial")
                errs = [x for x in S.ret_sites(h, S.is_err_agg) if x.bb in r and "TransportError::MultiaddrNotSupported{0: " in render(h.site_expr(x))]
                ctx.ob("dial", "non-global IP => MultiaddrNotSupported(addr)", len(errs) >= 1, msg="Err(MultiaddrNotSupported(addr))")
            ng_edges |= {("helper", s.bb, t) for _, t in f_e}
            break
        if not decided:
            ctx.ob("dial", "inner dial only if the leading IP is global", False, s.loc(), "helper %s dials without a test the caller's is_global result controls" % h.short[-40:])
    # the v4 table is applied to the Ip4 payload, the v6 table to the Ip6 payload, of the address's own first component
    tests = [x for bi in d.live for x in ([y for y in mir.walk(d.switch_info(bi)[0])] if d.switch_info(bi) else []) if x[0] == "call" and re.search(r"ipv[46]_global::is_global$", strip_generics(x[1]))]
    tests += [x for s in d.call_sites() for a in d.site_expr(s)[2] for x in mir.walk(a) if x[0] == "call" and re.search(r"ipv[46]_global::is_global$", strip_generics(x[1]))]
    for x in tests:
        v = re.search(r"ipv([46])_global", strip_generics(x[1])).group(1)
        ctx.ob("dial", "ipv%s table applied to the address's own first Ip%s component" % (v, v), global_test(x) == v, "%s:%d" % (d.file, d.line), S.nrender(x)[-160:])
    ctx.ob("dial", "floor:is_global tests", len({strip_generics(x[1]) for x in tests}) == 2, nontrivial=False, msg="%d tests" % len(tests))
    # non-IP first component / non-global => MultiaddrNotSupported, no dial
    all_dials = set(lib.bbs(direct)) | {s.bb for s, _, _ in via}
    first = [bi for bi in d.live if d.switch_info(bi) and d.switch_info(bi)[0][0] == "discr" and first_comp(d.switch_info(bi)[0][1]) and
             {"Ip4", "Ip6"} <= {x for ls in d.switch_info(bi)[1].values() for x in ls}]
    ctx.floor("dial", "first-component switch", first, 1)

    def refusals(body, r):
        return [x for x in S.ret_sites(body, S.is_err_agg) if x.bb in r and "TransportError::MultiaddrNotSupported{0: addr}" in render(body.site_expr(x))]
    for bi in first:
        cond, labs = d.switch_info(bi)
        for tgt, ls in labs.items():
            if ls & {"Ip4", "Ip6"}:
                continue
            r = d.reachable([tgt])
            ctx.ob("dial", "any other first component is refused without dialing", not (all_dials & r), "%s:%d" % (d.file, d.line), "%d non-IP variants reach no inner.dial" % len(ls))
            ctx.ob("dial", "refusal is MultiaddrNotSupported(addr)", len(refusals(d, r)) >= 1, "%s:%d" % (d.file, d.line), "Err(MultiaddrNotSupported(addr))")
    _, none = S.outcome_edges(d, lambda v: callee_is(v, r"Iterator>?::next$") and callee_is(S.peel(v[2][0]), r"Multiaddr::iter$"), close=False)
    for _, t in none:
        ctx.ob("dial", "empty address is refused without dialing", not (all_dials & d.reachable([t])), msg="None => MultiaddrNotSupported")
    ctx.ob("dial", "floor:non-global edges", len(ng_edges) == 2, nontrivial=False, msg=str(sorted(map(str, ng_edges))))
    for _, t in glob_false:
        r = d.reachable([t])
        ctx.ob("dial", "non-global IP => no inner dial", not (all_dials & r), msg="non-global edge cannot reach inner.dial")
        ctx.ob("dial", "non-global IP => MultiaddrNotSupported(addr)", len(refusals(d, r)) >= 1, msg="Err(MultiaddrNotSupported(addr))")
