"""Refactoring-neutral matching helpers for the negotiation / security / transport property modules (C14-C23).

Only expression and graph utilities; no rule lives here.  The aim of everything in this file is that a rule is
keyed on the *role* of a value (which call produced it, which field it is read from, which constant it is compared
with, which parameter position it has) and never on how a local variable, parameter, closure parameter or captured
variable happens to be spelled, on `?`-desugaring text, or on the polarity / operand order of a comparison."""
import re

from . import mir
from .mir import render, strip_generics, Site

# ---------------------------------------------------------------------------- canonical names
def canon_args(body, names):
    """Render the parameters of `body` under canonical names (`names[i]` for parameter i+1) whatever they are called
    in the source.  `None` keeps the source name.  Returns body."""
    for i, n in enumerate(names):
        if i + 1 <= body.argc and n is not None:
            body.names[i + 1] = n
    body._expr_cache.clear()
    return body


def canon_local(body, l, name):
    """Render local `l` under the canonical name `name` (used after the local was identified by its role)."""
    body.names[l] = name
    body._expr_cache.clear()
    return body


_SELF_ALIAS = re.compile(r"(^|::)(project|project_ref|get_mut|get_ref|deref_mut|deref|into_inner|as_mut|get_unchecked_mut)$")


def canon_this(body, name="this"):
    """The named local that aliases the receiver (`let this = self.project()` / `Pin::into_inner(self)` / `&mut *self` /
    `self.get_mut()`), whatever it is called, is rendered `this`.  No-op if there is none."""
    for l, nm in list(body.names.items()):
        if l <= body.argc:
            continue
        ds = body.defs.get(l, [])
        if len(ds) != 1:
            continue
        e = body.init_expr(l)
        for _ in range(4):
            if e[0] == "call" and len(e[2]) == 1 and _SELF_ALIAS.search(strip_generics(e[1])):
                e = e[2][0]
            else:
                break
        if e[0] == "arg" and e[1] == 1:
            body.names[l] = name
    body._expr_cache.clear()
    return body


def named_locals(body, pred):
    """Locals (index list) whose every whole definition satisfies pred(expr) for at least one definition and which are
    user variables or temporaries alike: used to find a variable by what is assigned to it."""
    out = []
    for l, ds in body.defs.items():
        if not isinstance(l, int) or l == 0 or l <= body.argc:
            continue
        for d in ds:
            e = body.rvalue_expr(d[3]) if d[0] == "stmt" else body.call_expr(d[3], d[1])
            try:
                if pred(e):
                    out.append(l)
                    break
            except Exception:
                pass
    return out


def def_exprs(body, l):
    """(Site, expr) of every whole definition of local l."""
    out = []
    for d in body.defs.get(l, []):
        if d[0] == "stmt":
            out.append((Site(body, d[1], d[2]), body.rvalue_expr(d[3])))
        else:
            out.append((Site(body, d[1]), body.call_expr(d[3], d[1])))
    return out


def is_local(e, l=None):
    return e[0] == "local" and (l is None or e[1] == l)


def is_arg(e, i=None):
    return e[0] == "arg" and (i is None or e[1] == i)


# ---------------------------------------------------------------------------- expression rewriting
def emap(e, f):
    """Rebuild expression e bottom-up, applying f to every rebuilt node."""
    t = e[0]
    if t == "call":
        e = ("call", e[1], tuple(emap(a, f) for a in e[2]), e[3])
    elif t == "bin":
        e = ("bin", e[1], emap(e[2], f), emap(e[3], f))
    elif t == "un":
        e = ("un", e[1], emap(e[2], f))
    elif t == "cast":
        e = ("cast", emap(e[1], f), e[2])
    elif t == "discr":
        e = ("discr", emap(e[1], f))
    elif t == "field":
        e = ("field", emap(e[1], f), e[2], e[3])
    elif t == "downcast":
        e = ("downcast", emap(e[1], f), e[2])
    elif t == "index":
        e = ("index", emap(e[1], f), emap(e[2], f))
    elif t == "cindex":
        e = ("cindex", emap(e[1], f), e[2], e[3])
    elif t == "agg":
        e = ("agg", e[1], e[2], e[3], tuple((n, emap(x, f)) for n, x in e[4]))
    elif t == "closure":
        e = ("closure", e[1], tuple(emap(x, f) for x in e[2]))
    elif t == "phi":
        e = ("phi", e[1], tuple(emap(x, f) for x in e[2]))
    return f(e)


def expand(body, e, keep=()):
    """Expression with named single-definition locals (which render() keeps symbolic when they are mutably borrowed)
    replaced by their initialiser, except mutable accumulators (`let mut v = Vec::new()`) and the locals in `keep`."""
    def f(x, depth=[0]):
        if x[0] == "local" and x[1] not in keep:
            ds = body.defs.get(x[1], [])
            # stores *through* a reference local (`*pos += 1`) do not change what the local refers to
            part = [d for d in body.defs.get((x[1], "partial"), []) if not (len(d) > 4 and d[4].get("pr") and d[4]["pr"][0]["k"] == "deref")]
            if len(ds) == 1 and not part:
                ie = body.init_expr(x[1])
                if ie[0] in ("const", "agg", "str") or (ie[0] == "call" and not ie[2]):
                    return x
                if ie != x and depth[0] < 12:
                    depth[0] += 1
                    try:
                        return emap(ie, f)
                    finally:
                        depth[0] -= 1
        return x
    return emap(e, f)


# ---------------------------------------------------------------------------- closures: captured variables by value, not by name
def closure_nodes(e):
    return [s for s in mir.walk(e) if s[0] == "closure"]


def closure_env(prog, parent, cexpr):
    """For a ('closure', def, upvars) expression of `parent`: (closure body, {captured name (no `*`): parent expression})."""
    cl = prog.closure_body(parent, cexpr[1])
    names = []
    for u in cl.raw.get("upnames", []):
        n = u["n"] if isinstance(u, dict) else u
        if isinstance(u, dict):
            for pr in u.get("p", {}).get("pr", ()):
                if pr["k"] == "field" and str(pr["n"]).startswith("upvar:"):
                    n = pr["n"].split(":", 1)[1]
        names.append(n.lstrip("*"))
    return cl, dict(zip(names, cexpr[2]))


def subst_upvars(e, env):
    """Replace every captured variable of a closure-body expression by the parent's captured expression."""
    def f(x):
        if x[0] == "upvar":
            return env.get(x[1].lstrip("*"), x)
        return x
    return emap(e, f)


# ---------------------------------------------------------------------------- success payloads: `?`, match, if-let, ok_or .. all alike
_TRY = re.compile(r"ops::Try>?::branch$")
_POLL_TRY = re.compile(r"<std::task::Poll as std::ops::Try>::branch$|task::Poll as .*Try>::branch$")
_KEEP_PAYLOAD = re.compile(r"(Option|Result)::(ok_or|ok_or_else|map_err|ok|or|or_else|inspect|inspect_err)$|Poll::map_err$|convert::Into>?::into$|hint::must_use$"
                           r"|(Option|Result)::(unwrap|expect|unwrap_or_default|unwrap_or|unwrap_or_else)$")
_KEEP_SUCCESS = re.compile(r"(Option|Result|Poll)::(ok_or|ok_or_else|map_err|map|map_ok|ok|inspect|inspect_err|and_then|transpose|copied|cloned|as_ref|as_mut|as_deref)$"
                           r"|ops::Try>?::branch$|convert::Into>?::into$|hint::must_use$")


def _ok(x, bb=-1):
    return ("call", "ok", (x,), bb)


def norm(e):
    """Normal form in which "the success payload of X" is written `ok(X)` whichever way the code obtains it:
    `X?` (`Try::branch(X)@Continue.0`), `match X { Ok(v) | Some(v) => v, .. }` / `if let` (`X@Ok.0`, `X@Some.0`),
    `X.ok_or(..)?`, `X.ok_or_else(..)?`, `X.map_err(..)?`, `X.expect(..)`, and `Poll::Ready(v)` payloads (`X@Ready.0` is
    written `ready(X)`)."""
    def f(x):
        if x[0] == "field" and x[2] == "0" and x[1][0] == "downcast":
            base, var = x[1][1], x[1][2]
            if var in ("Continue", "Some", "Ok"):
                if var == "Continue" and base[0] == "call" and _TRY.search(strip_generics(base[1])) and base[2]:
                    if _POLL_TRY.search(strip_generics(base[1])):
                        # `poll?` on a Poll<Result<..>>: the payload is a Poll (Ready(Ok) *or* Pending), not a success value
                        inner = base[2][0]
                        for _ in range(8):
                            if inner[0] == "call" and inner[2] and _KEEP_PAYLOAD.search(strip_generics(inner[1])):
                                inner = inner[2][0]
                            else:
                                break
                        return ("call", "not_err", (inner,), inner[3] if inner[0] == "call" else -1)
                    base = base[2][0]
                # payload preserving adaptors between the source and the test
                for _ in range(8):
                    if base[0] == "call" and base[2] and base[1] != "ok" and _KEEP_PAYLOAD.search(strip_generics(base[1])):
                        base = base[2][0]
                    else:
                        break
                if base[0] == "call" and base[1] == "ready":
                    pass
                return _ok(base, base[3] if base[0] == "call" else -1)
            if var == "Ready":
                return ("call", "ready", (base,), base[3] if base[0] == "call" else -1)
        if x[0] == "call" and x[2] and re.search(r"(Option|Result)::(unwrap|expect)$", strip_generics(x[1])):
            base = x[2][0]
            for _ in range(8):
                if base[0] == "call" and base[2] and base[1] != "ok" and _KEEP_PAYLOAD.search(strip_generics(base[1])):
                    base = base[2][0]
                else:
                    break
            return _ok(base, x[3])
        return x
    return emap(e, f)


def nrender(e):
    return render(norm(e))


def tested_values(cond):
    """The chain of values whose *success* a switch condition tests, outermost first: strips discr / Not and looks
    through success-preserving adaptors (`?`, map, map_err, ok_or, and_then ..) and `Poll::Ready` payloads.
    Returns (list of expressions, negated?, labels that mean success, labels that mean failure).  `?` applied to a
    `Poll<Result<..>>` only separates `Ready(Err)` from the rest: its `Continue` edge is *not* a success edge (the value may
    be `Pending`); the `Ready` edge of a test of its payload is."""
    e, neg, out = cond, False, []
    succ, fail = {"Continue", "Ok", "Some"}, {"Break", "Err", "None"}
    first = True
    for _ in range(40):
        t = e[0]
        if t == "un" and e[1] == "Not":
            neg = not neg
            e = e[2]
            continue
        if t == "discr":
            e = e[1]
            continue
        if t == "field" and e[2] == "0" and e[1][0] == "downcast" and e[1][2] in ("Ready", "Continue"):
            x = e[1][1]
            if e[1][2] == "Continue" and x[0] == "call" and _POLL_TRY.search(strip_generics(x[1])) and x[2]:
                if first:
                    succ = succ | {"Ready"}          # not Ready(Err) and Ready  =>  Ready(Ok)
                out.append(e)
                e = x[2][0]
            else:
                out.append(e)
                e = x
        elif t == "call" and e[2] and _POLL_TRY.search(strip_generics(e[1])):
            if first:
                succ = succ - {"Continue"}
            out.append(e)
            e = e[2][0]
        elif t == "call" and e[2] and e[1] not in ("ok", "ready", "not_err") and _KEEP_SUCCESS.search(strip_generics(e[1])):
            out.append(e)
            e = e[2][0]
        else:
            out.append(e)
            break
        first = False
    return out, neg, succ, fail




def outcome_edges(body, pred, close=True):
    """(success_edges, failure_edges) for every test of the success of a value V with pred(V) true: `V?`, `match V`,
    `if let Some/Ok(..) = V`, `V.is_some()/is_ok()/is_none()/is_err()` (either polarity, `!` looked through),
    also behind `ok_or(..)`, `map_err(..)`, `ready!(..)`.  With close=True the sets are closed under bool hoisting."""
    succ, fail = set(), set()
    for bi in body.live:
        info = body.switch_info(bi)
        if not info:
            continue
        cond, labs = info
        c, neg = cond, False
        while c[0] == "un" and c[1] == "Not":
            c, neg = c[2], not neg
        kind = None
        _SUCC, _FAIL = set(), set()
        if c[0] == "discr":
            kind = "discr"
            vals, _, _SUCC, _FAIL = tested_values(c)
        elif c[0] == "call" and c[2] and re.search(r"(Option|Result)::(is_some|is_ok|is_none|is_err)$", strip_generics(c[1])):
            kind = "pos" if re.search(r"is_(some|ok)$", strip_generics(c[1])) else "neg"
            vals = tested_values(c[2][0])[0]
        else:
            continue
        try:
            hit = any(pred(v) for v in vals)
        except Exception:
            hit = False
        if not hit:
            continue
        for tgt, ls in labs.items():
            if not ls:
                continue
            if kind == "discr":
                if ls <= _SUCC:
                    succ.add((bi, tgt))
                elif ls <= _FAIL:
                    fail.add((bi, tgt))
            else:
                if ls <= {"true", "false"} and len(ls) == 1:
                    truth = ("true" in ls) != neg
                    good = truth if kind == "pos" else not truth
                    (succ if good else fail).add((bi, tgt))
    if close:
        succ = body.derive_edges(succ)
        fail = body.derive_edges(fail)
    return succ, fail


def call_outcome_edges(body, site, close=True):
    """(success, failure) edges of the tests of the result of the call at `site` (close=False: only the edges of the
    tests themselves, for path counting from them)."""
    return outcome_edges(body, lambda v: v[0] == "call" and v[3] == site.bb and v[1] not in ("ok", "ready", "not_err"), close)


def truth_edges(body, pred, close=True):
    """(true_edges, false_edges) of switches on a bool value V with pred(V) (looking through `!`), closed under
    bool hoisting (`let ok = V; if ok ..`) unless close=False (then: only the edges of the tests themselves)."""
    te, fe = set(), set()
    for bi in body.live:
        info = body.switch_info(bi)
        if not info:
            continue
        c, neg = info[0], False
        while c[0] == "un" and c[1] == "Not":
            c, neg = c[2], not neg
        try:
            if not pred(c):
                continue
        except Exception:
            continue
        for tgt, ls in info[1].items():
            if len(ls) == 1 and next(iter(ls)) in ("true", "false"):
                truth = ("true" in ls) != neg
                (te if truth else fe).add((bi, tgt))

    if not close:
        return te, fe

    def hp(want):
        def p(e, r, lab):
            c, neg = e, False
            while c[0] == "un" and c[1] == "Not":
                c, neg = c[2], not neg
            try:
                return pred(c) and ((lab == "true") != neg) == want
            except Exception:
                return False
        return p
    return body.derive_edges(te, hp(True)), body.derive_edges(fe, hp(False))


# ---------------------------------------------------------------------------- comparisons: any operand order, any polarity
_FLIP = {"lt": "gt", "le": "ge", "gt": "lt", "ge": "le", "eq": "eq", "ne": "ne"}
_NEG = {"lt": "ge", "le": "gt", "gt": "le", "ge": "lt", "eq": "ne", "ne": "eq"}
_OPS = {"Lt": "lt", "Le": "le", "Gt": "gt", "Ge": "ge", "Eq": "eq", "Ne": "ne"}
_ORD_CALL = re.compile(r"(?:^|::)(?:PartialOrd(?:<[^>]*>)?>?|PartialEq(?:<[^>]*>)?>?|cmp::impls(?:::<[^>]*>)?|partial_eq|equality|slice::cmp)::(lt|le|gt|ge|eq|ne)$")


def cmp_of(cond):
    """(rel, a, b) for a (possibly negated) comparison — MIR BinOp or a resolved PartialOrd/PartialEq call — else None."""
    neg = False
    while cond[0] == "un" and cond[1] == "Not":
        neg = not neg
        cond = cond[2]
    rel = None
    if cond[0] == "bin" and cond[1] in _OPS:
        rel, a, b = _OPS[cond[1]], cond[2], cond[3]
    elif cond[0] == "call" and len(cond[2]) == 2:
        m = _ORD_CALL.search(strip_generics(cond[1]))
        if m:
            rel, a, b = m.group(1), cond[2][0], cond[2][1]
    if rel is None:
        return None
    return (_NEG[rel] if neg else rel), a, b


def rel_edges(body, lhs_pred, rhs_pred, close=True):
    """dict rel -> set of CFG edges on which `L rel R` is known (rel in lt/le/gt/ge/eq/ne), for every comparison whose
    operands satisfy lhs_pred(expr) / rhs_pred(expr), in either operand order and either polarity.  Weaker relations
    are implied: the `lt` edges are also in `le` and `ne`, `gt` in `ge` and `ne`, `eq` in `le` and `ge`."""
    out = {k: set() for k in _FLIP}
    for bi in sorted(body.live):
        info = body.switch_info(bi)
        if not info:
            continue
        c = cmp_of(info[0])
        if not c:
            continue
        rel, a, b = c
        try:
            if lhs_pred(a) and rhs_pred(b):
                pass
            elif lhs_pred(b) and rhs_pred(a):
                rel = _FLIP[rel]
            else:
                continue
        except Exception:
            continue
        for tgt, ls in info[1].items():
            if len(ls) != 1:
                continue
            lab = next(iter(ls))
            if lab == "true":
                out[rel].add((bi, tgt))
            elif lab == "false":
                out[_NEG[rel]].add((bi, tgt))
    if close:
        for k in out:
            def hp(e, r, lab, k=k):
                c = cmp_of(e)
                if not c:
                    return False
                rel, a, b = c
                if lhs_pred(a) and rhs_pred(b):
                    pass
                elif lhs_pred(b) and rhs_pred(a):
                    rel = _FLIP[rel]
                else:
                    return False
                return (rel if lab == "true" else _NEG[rel]) == k
            out[k] = body.derive_edges(out[k], hp)
    out["le"] |= out["lt"] | out["eq"]
    out["ge"] |= out["gt"] | out["eq"]
    out["ne"] |= out["lt"] | out["gt"]
    return out


def cval(e):
    """Evaluated integer value of a constant expression (literal, named constant, cast or arithmetic of those); else None."""
    t = e[0]
    if t == "const":
        return int(e[1]) if isinstance(e[1], (int, bool)) else None
    if t == "namedconst":
        return e[2] if isinstance(e[2], int) else None
    if t == "cast":
        return cval(e[1])
    if t == "bin":
        a, b = cval(e[2]), cval(e[3])
        if a is None or b is None:
            return None
        op = e[1].replace("WithOverflow", "")
        try:
            return {"Add": a + b, "Sub": a - b, "Mul": a * b, "Shl": a << b, "Shr": a >> b, "BitAnd": a & b, "BitOr": a | b}.get(op)
        except (ValueError, OverflowError):
            return None
    if t == "field" and e[2] == "0" and e[1][0] == "bin" and e[1][1].endswith("WithOverflow"):
        return cval(e[1])
    return None


def is_const(e, value=None, name_pat=None):
    """e is a compile-time constant (optionally with the given value / a named constant whose path matches)."""
    v = cval(e)
    if v is None:
        return False
    if value is not None and v != value:
        return False
    if name_pat is not None:
        return any(s[0] == "namedconst" and re.search(name_pat, s[1]) for s in mir.walk(e))
    return True


# ---------------------------------------------------------------------------- guards
def guarded(ctx, rule, instance, site, edges, desc, start=0):
    """Obligation: every path from `start` to `site` passes one of `edges`."""
    body = site.body
    ctx.bodies.add(body.npath)
    ok = bool(edges) and body.must_pass_edges(site.bb, set(edges), start)
    ctx.ob(rule, instance, ok, site.loc(), ("guard present on all paths: " if ok else "a path reaches this site without the guard: ") + desc)
    return ok


def ret_sites(body, pred=None):
    """Sites assigning the return place (statements and calls) whose expression satisfies pred."""
    out = []
    for d in body.defs.get(0, []):
        s = Site(body, d[1], d[2]) if d[0] == "stmt" else Site(body, d[1])
        e = body.site_expr(s)
        if pred is None or pred(e):
            out.append(s)
    return out


def is_ok_agg(e):
    return e[0] == "agg" and e[1] == "adt" and e[3] == "Ok" and strip_generics(e[2]).endswith("result::Result")


def is_err_agg(e):
    return e[0] == "agg" and e[1] == "adt" and e[3] == "Err" and strip_generics(e[2]).endswith("result::Result")


def ok_sites(body):
    return ret_sites(body, is_ok_agg)


def has(e, pred):
    return any(pred(s) for s in mir.walk(e))


def has_call(e, pat):
    rx = re.compile(pat)
    return any(s[0] == "call" and rx.search(strip_generics(s[1])) for s in mir.walk(e))


def calls(e, pat):
    rx = re.compile(pat)
    return [s for s in mir.walk(e) if s[0] == "call" and rx.search(strip_generics(s[1]))]


def has_field(e, field, base_pred=None):
    return any(s[0] == "field" and s[2] == field and (base_pred is None or base_pred(s[1])) for s in mir.walk(e))


_DEREF = re.compile(r"ops::Deref(Mut)?>?::deref(_mut)?$|convert::AsRef>?::as_ref$|convert::AsMut>?::as_mut$|borrow::Borrow(Mut)?>?::borrow(_mut)?$|Vec::as_slice$|Vec::as_mut_slice$"
                    r"|String::as_bytes$|String::as_str$|(^|::)clone::Clone>?::clone$|slice::<impl \[T\]>::to_vec$|borrow::ToOwned>?::to_owned$"
                    r"|Option::as_(ref|mut|deref|deref_mut)$|Result::as_(ref|mut|deref)$|pin::Pin::(new|as_mut|as_ref|get_mut|into_inner)$|slice::to_vec$")


def peel(e):
    """Strip view / copy conversions (`deref`, `as_ref`, `as_slice`, `borrow`, `clone`, `to_vec`, `to_owned`) around a value."""
    for _ in range(12):
        if e[0] == "call" and len(e[2]) == 1 and _DEREF.search(strip_generics(e[1])):
            e = e[2][0]
        else:
            break
    return e


def self_field(e, field):
    """e is `self.<field>` (through view conversions)."""
    e = peel(e)
    return e[0] == "field" and e[2] == field and e[1][0] == "arg" and e[1][1] == 1


def crate_callee(prog, body, site):
    """The workspace body called at `site` (same crate), or None."""
    n = strip_generics(body.call_name(site.term))
    for b in prog.bodies(body.crate):
        if b.npath == n:
            return b
    return None


def recv_norm(body):
    """Function rewriting every way of reaching the receiver — `Pin::deref(self)`, `Pin::deref_mut(self)`,
    `Pin::into_inner(self)`, `self.project()`, `self.get_mut()`, or a local bound to one of these (`let this = ..`) —
    to plain `self`, so that `this.send_offset`, `me.send_offset` and `self.send_offset` are the same place."""
    if body.names.get(1) != "self":
        return lambda e: e
    aliases = set()
    for l in [k for k in body.defs if isinstance(k, int)]:
        if l <= body.argc or len(body.defs.get(l, [])) != 1:
            continue
        e = body.init_expr(l)
        for _ in range(4):
            if e[0] == "call" and len(e[2]) == 1 and _SELF_ALIAS.search(strip_generics(e[1])):
                e = e[2][0]
            else:
                break
        if e[0] == "arg" and e[1] == 1:
            aliases.add(l)
    me = ("arg", 1, "self")

    def f(x):
        if x[0] == "local" and x[1] in aliases:
            return me
        if x[0] == "call" and len(x[2]) == 1 and x[2][0][0] == "arg" and x[2][0][1] == 1 and _SELF_ALIAS.search(strip_generics(x[1])):
            return me
        return x
    return lambda e: emap(e, f)


def view(body):
    """render() after receiver- and success-payload normalisation."""
    rn = recv_norm(body)
    return lambda e: render(norm(rn(e)))


def same(a, b):
    """Structural equality of two expressions ignoring the block a call sits in and display names."""
    def strip(x):
        if x[0] == "call":
            return ("call", strip_generics(x[1]), x[2], 0)
        if x[0] in ("arg", "local"):
            return (x[0], x[1], None)
        return x
    return emap(a, strip) == emap(b, strip)


def vguarded(ctx, rule, instance, site, pred, desc, V=None, start=0, correlate=None):
    """ctx.guarded with the switch condition rendered in normal form (receiver aliases -> `self`, success payloads ->
    `ok(..)`, Poll payloads -> `ready(..)`): pred(cond_expr, normalised text, label)."""
    body = site.body
    V = V or view(body)
    ctx.bodies.add(body.npath)

    def p(c, r, l):
        return pred(c, V(c), l)
    edges = body.derive_edges(body.guard_edges(p), p, start)
    ok = bool(edges) and body.must_pass_edges(site.bb, edges, start, correlate)
    ctx.ob(rule, instance, ok, site.loc(), ("guard present on all paths: " if ok else "a path reaches this site without the guard: ") + desc)
    return ok
