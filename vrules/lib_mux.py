"""Helpers shared by the muxer / codec / webrtc / mdns property modules (C24-C26, C55-C57)."""
import re

from . import mir
from .mir import render, strip_generics, Site


def fsm_extract_field(body, state_adt_pat, field, dispatch_pat=r"^discr\(std::mem::replace\(", classify=None):
    """Transition relation of a `loop { match mem::replace(&mut self.<field>, Poison) {..} }` decoder.

    Same result shape as lib.fsm_extract, but the state lives in an arbitrarily named field, and results are
    classified by `classify(rendered _0 value) -> kind` (call results: 'residual' for `?`, else 'call').
    Returns arm -> {'next': [(variant, fields, site)], 'on': {kind: [(variant|None, fields, site)]},
                    'exits': set(kinds), 'continue_unstored': bool, 'entry': bb}."""
    rx = re.compile(dispatch_pat)
    disp = None
    for bi in sorted(body.live):
        info = body.switch_info(bi)
        if info and rx.search(render(info[0])) and ("." + field) in render(info[0]):
            disp = (bi, info)
            break
    if disp is None:
        raise mir.RuleError("state dispatch on .%s not found in %s" % (field, body.npath))
    dbb, (cond, labs) = disp
    head = None
    for s in mir.walk(cond):
        if s[0] == "call":
            head = s[3]
            break
    arx = re.compile(state_adt_pat)
    stores = {}
    for bi in body.live:
        for si, st in enumerate(body.blocks[bi]["stmts"]):
            if st["k"] == "assign" and st["p"].get("pr"):
                prs = st["p"]["pr"]
                if not (prs[-1]["k"] == "field" and prs[-1]["n"] == field):
                    continue
                e = body.rvalue_expr(st["r"])
                if e[0] == "agg" and e[1] == "adt" and arx.search(strip_generics(e[2])):
                    stores.setdefault(bi, []).append((e[3], dict((f, render(x)) for f, x in e[4]), Site(body, bi, si)))
                else:
                    stores.setdefault(bi, []).append(("?", {"value": render(e)}, Site(body, bi, si)))
    results = {}
    for d in body.defs.get(0, []):
        bi = d[1]
        if d[0] == "stmt":
            k = classify(render(body.rvalue_expr(d[3])))
        else:
            k = "residual" if "from_residual" in body.call_name(d[3]) else "call"
        results[bi] = k
    out = {}
    for tgt, ls in labs.items():
        for arm in ls:
            rec = {"next": [], "exits": set(), "on": {}, "continue_unstored": False, "entry": tgt}
            seen = set()
            stack = [(tgt, None)]
            while stack:
                b, last = stack.pop()
                if (b, last) in seen:
                    continue
                seen.add((b, last))
                if b in stores:
                    last = b
                if b in results:
                    k = results[b]
                    rec["exits"].add(k)
                    lst = rec["on"].setdefault(k, [])
                    for v in (stores[last] if last is not None else [(None, {}, None)]):
                        if v not in lst:
                            lst.append(v)
                    continue
                t = body.blocks[b]["term"]
                if t and t["k"] == "call" and "t" not in t:
                    rec["exits"].add("panic")
                    continue
                for s in body.succ[b]:
                    if s == head:
                        if last is None:
                            rec["continue_unstored"] = True
                        else:
                            for v in stores[last]:
                                if v not in rec["next"]:
                                    rec["next"].append(v)
                        continue
                    stack.append((s, last))
            out[arm] = rec
    return out, head


def accept_edges_le(body, lhs_pred, rhs_pred):
    """Edges on which `lhs <= rhs` is known, for integer comparisons whose operands satisfy the predicates on their
    rendered text: false-edge of `lhs > rhs`, true-edge of `lhs <= rhs`, false-edge of `rhs < lhs`, true-edge of
    `rhs >= lhs`.  Also returns the edges of stricter tests (`lhs >= rhs` false / `lhs < rhs` true) and the list of
    (switch bb, op, lhs text) of every comparison found."""
    le, lt, found = set(), set(), []
    flip = {"Lt": "Gt", "Le": "Ge", "Gt": "Lt", "Ge": "Le"}
    for bi in body.live:
        info = body.switch_info(bi)
        if not info:
            continue
        cond, labs = info
        if cond[0] != "bin" or cond[1] not in flip:
            continue
        a, b = render(cond[2]), render(cond[3])
        if lhs_pred(a) and rhs_pred(b):
            op, l = cond[1], a
        elif lhs_pred(b) and rhs_pred(a):
            op, l = flip[cond[1]], b
        else:
            continue
        found.append((bi, op, l))
        for tgt, ls in labs.items():
            for lab in ls:
                if (op, lab) in (("Gt", "false"), ("Le", "true")):
                    le.add((bi, tgt))
                elif (op, lab) in (("Ge", "false"), ("Lt", "true")):
                    lt.add((bi, tgt))
    return le, lt, found


def zero_assigns(body):
    """dict bb -> rendered value for `_0 = <aggregate/use>` statements; call-defined results are keyed 'call:<name>'."""
    out = {}
    for d in body.defs.get(0, []):
        if d[0] == "stmt":
            out[d[1]] = render(body.rvalue_expr(d[3]))
        else:
            out[d[1]] = "call:" + strip_generics(body.call_name(d[3]))
    return out


def overflow_asserts(body):
    """Overflow `Assert` terminators of a body: list of (rendered condition, message, Site)."""
    out = []
    for bi in sorted(body.live):
        t = body.blocks[bi]["term"]
        if t and t["k"] == "assert" and t["msg"].startswith("overflow"):
            out.append((render(body.operand_expr(t["c"])), t["msg"], Site(body, bi)))
    return out


# ---------------------------------------------------------------------------- mplex io.rs helpers (C24, C26)
MP = "libp2p_mplex"


IO_ARGS = {"new": ["io", "config"], "poll_flush": ["self", "cx"], "poll_close": ["self", "cx"], "poll_next_stream": ["self", "cx"],
           "poll_open_stream": ["self", "cx"], "drop_stream": ["self", "id"], "poll_write_stream": ["self", "cx", "id", "buf"],
           "poll_read_stream": ["self", "cx", "id"], "poll_flush_stream": ["self", "cx", "id"], "poll_close_stream": ["self", "cx", "id"],
           "poll_send_frame": ["self", "cx", "frame"], "poll_read_frame": ["self", "cx", "stream_id"], "on_open": ["self", "id"],
           "on_reset": ["self", "id"], "on_close": ["self", "id"], "can_read": ["self", "id"], "buffer": ["self", "id", "data"],
           "send_pending_frames": ["self", "cx"], "on_error": ["self", "e"]}


def io_body(ctx, name):
    """A method of mplex `Multiplexed`, with its parameters rendered under the canonical names of IO_ARGS."""
    b = ctx.body(MP, r"^libp2p_mplex::io::Multiplexed::%s$" % name)
    if name in IO_ARGS:
        canon_args(b, IO_ARGS[name])
    return b


def canon_io(prog):
    """Apply IO_ARGS to every Multiplexed method (for rules that sweep all bodies of the crate)."""
    for b in prog.bodies(MP):
        m = re.match(r"^libp2p_mplex::io::Multiplexed::(\w+)$", b.npath)
        if m and m.group(1) in IO_ARGS:
            canon_args(b, IO_ARGS[m.group(1)])


def none_edges(body, place):
    """Edges on which the Option at rendered place `place` is known to be None (`match`/`if let` discriminant, or
    `is_none()` / `is_some()`)."""
    return body.guard_edges(lambda c, r, l: (l == "None" and r == "discr(%s)" % place) or
                            (l == "true" and r == "std::option::Option::is_none(%s)" % place) or (l == "false" and r == "std::option::Option::is_some(%s)" % place))


def some_edges(body, place):
    return body.guard_edges(lambda c, r, l: (l == "Some" and r == "discr(%s)" % place) or
                            (l == "false" and r == "std::option::Option::is_none(%s)" % place) or (l == "true" and r == "std::option::Option::is_some(%s)" % place))


def opt_eq_key(rendered, label, place):
    """If (condition, label) establishes `place == Some(K)` return K's text, else None.  Forms: Option == Option in either
    operand order, `!=` on the false edge, and equality of the payload `place@Some.0` with K."""
    for pat, lab in ((r"^<std::option::Option as std::cmp::PartialEq>::eq\(%s, std::option::Option::Some\{0: (.+)\}\)$", "true"),
                     (r"^<std::option::Option as std::cmp::PartialEq>::eq\(std::option::Option::Some\{0: (.+)\}, %s\)$", "true"),
                     (r"^<std::option::Option as std::cmp::PartialEq>::ne\(%s, std::option::Option::Some\{0: (.+)\}\)$", "false"),
                     (r"^<std::option::Option as std::cmp::PartialEq>::ne\(std::option::Option::Some\{0: (.+)\}, %s\)$", "false"),
                     (r"^.*PartialEq>::eq\(%s@Some\.0, (.+)\)$", "true"), (r"^.*PartialEq>::ne\(%s@Some\.0, (.+)\)$", "false")):
        m = re.match(pat % re.escape(place), rendered)
        if m and label == lab:
            return m.group(1)
    m = re.match(r"^.*PartialEq>::eq\((.+), %s@Some\.0\)$" % re.escape(place), rendered)
    if m and label == "true":
        return m.group(1)
    return None


def substream_inserts(body):
    """`self.substreams.insert(key, value)` call sites of a body: list of (site, key text, value expr)."""
    out = []
    for s in body.call_sites(r"HashMap::insert$"):
        e = body.site_expr(s)
        if render(e[2][0]) == "self.substreams":
            out.append((s, render(e[2][1]), e[2][2]))
    return out


def variant_table(body, state_pat, variants, classify, extra=None):
    """Abstractly run `body` once per enum variant: at switches whose rendered condition matches `state_pat` only the
    edge of that variant is followed (other atoms: `extra` = dict atom-regex -> label); every other switch is
    followed on all edges.  Returns (dict variant -> sorted list of classify(rendered `_0` value)), unknown-conditions)."""
    from . import lib
    z = zero_assigns(body)
    amap = [(state_pat, "state")] + [(p, "x%d" % i) for i, p in enumerate(extra or {})]
    tab, unk_all = {}, set()
    for v in variants:
        asg = {"state": v}
        for i, p in enumerate(extra or {}):
            asg["x%d" % i] = extra[p]
        res, unk, bare = lib.cell_eval(body, asg, amap, set(z))
        unk_all |= unk
        tab[v] = sorted({classify(z[b]) for b in res}, key=lambda x: (x is None, str(x)))
    return tab, unk_all


def frame_switch(body):
    """The 4-way switch on a received Frame: (switch bb, rendered frame expr, {variant: target bb})."""
    for bi in sorted(body.live):
        info = body.switch_info(bi)
        if not info:
            continue
        cond, labs = info
        allv = {l for ls in labs.values() for l in ls}
        if cond[0] == "discr" and allv == {"Open", "Data", "Close", "Reset"} and "poll_read_frame" in render(cond):
            return bi, render(cond[1]), {l: t for t, ls in labs.items() for l in ls}
    raise mir.RuleError("no Frame dispatch in %s" % body.npath)


def result_blocks(body, pred):
    """Blocks assigning `_0` a value whose rendering satisfies pred (statement results) or whose callee does (calls)."""
    return sorted(b for b, r in zero_assigns(body).items() if pred(r))


# ---------------------------------------------------------------------------- K7: exact cell evaluation of small enum-state functions
class CellEval:
    """Push ONE fully concrete cell (values of the argument places) through a MIR body deterministically.

    Values: bool / int / str / (variant, {field: value}) for enum aggregates / ('call', name, [args]) for opaque calls.
    `args`: dict arg-index -> value (an arg that is `&mut State` holds the State value; stores through it update it).
    Result of run(): dict(kind='return'|'panic'|'unknown', ret=value, args=final arg values, calls=[names], why=text).
    Nothing of the analysed program is executed: statements are interpreted over this finite value domain only; any
    construct outside the domain makes the cell 'unknown' (fail closed)."""

    def __init__(self, body, max_steps=400):
        self.b = body
        self.max_steps = max_steps

    class Unknown(Exception):
        pass

    def _place(self, p, env, args):
        l = p["l"]
        if 1 <= l <= self.b.argc:
            v = args.get(l, ("?arg%d" % l,))
        elif l in env:
            v = env[l]
        else:
            raise CellEval.Unknown("read of unset local _%d" % l)
        for pr in p.get("pr", ()):
            k = pr["k"]
            if k == "deref":
                continue
            if k == "downcast":
                if not (isinstance(v, tuple) and len(v) == 2 and isinstance(v[1], dict)) or v[0] != pr["v"]:
                    raise CellEval.Unknown("downcast %s of %r" % (pr["v"], v))
                continue
            if k == "field":
                if isinstance(v, tuple) and len(v) == 2 and isinstance(v[1], dict) and pr["n"] in v[1]:
                    v = v[1][pr["n"]]
                    continue
                raise CellEval.Unknown("field %s of %r" % (pr["n"], v))
            raise CellEval.Unknown("projection %s" % k)
        return v

    def _operand(self, o, env, args):
        k = o["k"]
        if k in ("copy", "move"):
            return self._place(o["p"], env, args)
        if k == "const":
            if "v" in o:
                v = _to_int(o["v"])
                if o.get("ty") == "bool":
                    return bool(v)
                return v
            if "s" in o:
                return o["s"]
            if o.get("ty") == "()":
                return ()
            return ("const", o.get("t") or o.get("def") or "?")
        raise CellEval.Unknown("operand %s" % k)

    def _rvalue(self, r, env, args):
        k = r["k"]
        if k == "use":
            return self._operand(r["o"], env, args)
        if k in ("ref", "rawptr", "copyderef"):
            return self._place(r["p"], env, args)
        if k == "discr":
            v = self._place(r["p"], env, args)
            if isinstance(v, tuple) and len(v) == 2 and isinstance(v[1], dict):
                return ("discr", v[0])
            raise CellEval.Unknown("discriminant of %r" % (v,))
        if k == "agg":
            ops = [self._operand(o, env, args) for o in r["ops"]]
            if r["ak"] == "adt":
                fields = r.get("fields", [])
                return (r["variant"], {fields[i] if i < len(fields) else str(i): ops[i] for i in range(len(ops))})
            if r["ak"] == "tuple":
                return ("tuple", {str(i): ops[i] for i in range(len(ops))})
            raise CellEval.Unknown("aggregate %s" % r["ak"])
        if k == "cast":
            return self._operand(r["o"], env, args)
        if k == "un" and r["op"] == "Not":
            v = self._operand(r["a"], env, args)
            if isinstance(v, bool):
                return not v
        if k == "bin" and r["op"] in ("Eq", "Ne"):
            a, b = self._operand(r["a"], env, args), self._operand(r["b"], env, args)
            return (a == b) if r["op"] == "Eq" else (a != b)
        raise CellEval.Unknown("rvalue %s" % k)

    def _store(self, p, v, env, args):
        l = p["l"]
        prs = [pr for pr in p.get("pr", ()) if pr["k"] != "deref"]
        if prs:
            raise CellEval.Unknown("partial store")
        if 1 <= l <= self.b.argc:
            args[l] = v
        else:
            env[l] = v

    def run(self, args):
        b = self.b
        env, args = {}, dict(args)
        calls = []
        bi, steps = 0, 0
        try:
            while True:
                steps += 1
                if steps > self.max_steps:
                    return dict(kind="unknown", why="step budget", args=args, calls=calls, ret=None)
                blk = b.blocks[bi]
                for st in blk["stmts"]:
                    if st["k"] == "assign":
                        self._store(st["p"], self._rvalue(st["r"], env, args), env, args)
                t = blk["term"]
                k = t["k"]
                if k in ("goto", "falseedge", "falseunwind", "drop"):
                    bi = t["t"]
                elif k == "return":
                    return dict(kind="return", ret=env.get(0, ()), args=args, calls=calls, why="")
                elif k == "switch":
                    v = self._operand(t["o"], env, args)
                    info = b.switch_info(bi)
                    lab = v[1] if isinstance(v, tuple) and v[0] == "discr" else ("true" if v is True else "false" if v is False else v)
                    nxt = [tg for tg, ls in info[1].items() if lab in ls]
                    if len(nxt) != 1:
                        nxt = [tg for tg, ls in info[1].items() if "otherwise" in ls]
                    if len(nxt) != 1:
                        raise CellEval.Unknown("switch on %r has no unique target" % (v,))
                    bi = nxt[0]
                elif k == "call":
                    name = strip_generics(b.call_name(t))
                    calls.append(name)
                    if "t" not in t:
                        return dict(kind="panic", ret=None, args=args, calls=calls, why=name)
                    vals = []
                    for a in t["args"]:
                        try:
                            vals.append(self._operand(a, env, args))
                        except CellEval.Unknown:
                            vals.append("?")
                    self._store(t["d"], ("call", name, vals), env, args)
                    bi = t["t"]
                elif k == "assert":
                    bi = t["t"]
                elif k == "unreachable":
                    return dict(kind="unknown", why="reached `unreachable`", args=args, calls=calls, ret=None)
                else:
                    raise CellEval.Unknown("terminator %s" % k)
        except CellEval.Unknown as e:
            return dict(kind="unknown", why=str(e), args=args, calls=calls, ret=None)


def _to_int(v):
    try:
        return int(v)
    except (TypeError, ValueError):
        return v


def show_val(v):
    """Canonical short text of a CellEval value."""
    if isinstance(v, bool):
        return "true" if v else "false"
    if isinstance(v, tuple) and len(v) == 2 and isinstance(v[1], dict):
        if not v[1]:
            return v[0]
        if v[0] == "tuple" and not v[1]:
            return "()"
        return "%s{%s}" % (v[0], ", ".join("%s: %s" % (f, show_val(x)) for f, x in v[1].items()))
    if isinstance(v, tuple) and len(v) == 3 and v[0] == "call":
        return "%s(%s)" % (v[1].split("::")[-1], ", ".join(show_val(x) for x in v[2]))
    if v == ():
        return "()"
    return str(v)


# ---------------------------------------------------------------------------- robustness helpers (refactoring-neutral matching)
def canon_args(body, names):
    """Render the parameters of `body` under canonical names (`names[i]` for parameter i+1) whatever they are called
    in the source, so that rules never depend on a parameter's spelling.  Returns body."""
    if getattr(body, "_canon_args", None) == tuple(names):
        return body
    for i, n in enumerate(names):
        if i + 1 <= body.argc and n is not None:
            body.names[i + 1] = n
    body._expr_cache.clear()
    body._canon_args = tuple(names)
    return body


def canon_upvars(body, names):
    """Same for the captured variables of a closure body: capture #i is rendered `^names[i]` (a by-reference
    capture keeps its `*`)."""
    if getattr(body, "_canon_upvars", None) == tuple(names):
        return body

    def fix(p):
        for pr in (p or {}).get("pr", ()):
            if pr.get("k") == "field" and str(pr.get("n", "")).startswith("upvar:") and pr.get("i") is not None and pr["i"] < len(names) and names[pr["i"]]:
                star = "*" if pr["n"].split(":", 1)[1].startswith("*") else ""
                pr["n"] = "upvar:" + star + names[pr["i"]]

    def fix_op(o):
        if isinstance(o, dict) and o.get("k") in ("copy", "move"):
            fix(o.get("p"))
    for blk in body.blocks:
        for st in blk["stmts"]:
            if st["k"] == "assign":
                fix(st["p"])
                r = st["r"]
                fix(r.get("p"))
                for key in ("o", "a", "b"):
                    fix_op(r.get(key))
                for o in r.get("ops", ()):
                    fix_op(o)
        t = blk["term"]
        if t:
            for a in t.get("args", ()):
                fix_op(a)
            fix_op(t.get("o"))
            fix_op(t.get("f"))
            fix(t.get("d"))
            fix(t.get("p"))
    body._expr_cache.clear()
    body._canon_upvars = tuple(names)
    return body


def cval(e):
    """Evaluated integer value of a constant expression (literal, named constant, cast or checked arithmetic of those);
    None if it is not a compile-time constant."""
    t = e[0]
    if t == "const":
        return e[1] if isinstance(e[1], int) and not isinstance(e[1], bool) else (int(e[1]) if isinstance(e[1], bool) else None)
    if t == "namedconst":
        return e[2] if isinstance(e[2], int) else None
    if t == "cast":
        return cval(e[1])
    if t == "bin":
        a, b = cval(e[2]), cval(e[3])
        if a is None or b is None:
            return None
        op = e[1].replace("WithOverflow", "")
        try:
            return {"Add": a + b, "Sub": a - b, "Mul": a * b, "Shl": a << b, "Shr": a >> b, "BitAnd": a & b, "BitOr": a | b}.get(op)
        except (ValueError, OverflowError):
            return None
    if t == "field" and e[2] == "0" and e[1][0] == "bin" and e[1][1].endswith("WithOverflow"):
        return cval(e[1])
    return None


_FLIP = {"lt": "gt", "le": "ge", "gt": "lt", "ge": "le", "eq": "eq", "ne": "ne"}
_NEG = {"lt": "ge", "le": "gt", "gt": "le", "ge": "lt", "eq": "ne", "ne": "eq"}
_OPS = {"Lt": "lt", "Le": "le", "Gt": "gt", "Ge": "ge", "Eq": "eq", "Ne": "ne"}


def _cmp_of(cond):
    """(rel, a, b, negated?) for a (possibly negated) integer comparison expression, else None."""
    neg = False
    while cond[0] == "un" and cond[1] == "Not":
        neg = not neg
        cond = cond[2]
    if cond[0] == "bin" and cond[1] in _OPS:
        rel = _OPS[cond[1]]
        return (_NEG[rel] if neg else rel), cond[2], cond[3]
    return None


def rel_edges(body, lhs_pred, rhs_pred, prog=None):
    """All CFG edges on which an integer relation `L rel R` is *known*, for comparisons whose operands satisfy
    lhs_pred(expr) / rhs_pred(expr) (either operand order, either polarity, `!(..)` looked through):
    list of dicts {edge, rel, lhs (expr), rhs (expr), switch (bb), via}.

    With `prog`, one level of crate-local helper is summarised: for a call `h(.., x, ..)` whose result is tested
    (`?`, `match`, `if h(..)`), if inside `h` every successful return (`Ok(..)` / `true`) is dominated by edges that
    establish `param rel R` (same rel), the caller's success edges of that call establish `x rel R`; the failing edges
    establish nothing (they are not needed by any rule)."""
    out = []
    for bi in sorted(body.live):
        info = body.switch_info(bi)
        if not info:
            continue
        c = _cmp_of(info[0])
        if not c:
            continue
        rel, a, b = c
        if lhs_pred(a) and rhs_pred(b):
            l, r = a, b
        elif lhs_pred(b) and rhs_pred(a):
            l, r, rel = b, a, _FLIP[rel]
        else:
            continue
        for tgt, ls in info[1].items():
            for lab in ls:
                if lab == "true":
                    out.append(dict(edge=(bi, tgt), rel=rel, lhs=l, rhs=r, switch=bi, via=None))
                elif lab == "false":
                    out.append(dict(edge=(bi, tgt), rel=_NEG[rel], lhs=l, rhs=r, switch=bi, via=None))
    if prog is None:
        return out
    by_path = {b.npath: b for b in prog.bodies(body.crate)}
    for s in body.call_sites():
        h = by_path.get(strip_generics(body.call_name(s.term)))
        if h is None or h is body:
            continue
        args = body.site_expr(s)[2]
        for pi, actual in enumerate(args):
            if not lhs_pred(actual):
                continue
            # `fn fits(n) -> bool { n <= MAX }`: the returned value *is* the comparison
            d0 = [d for d in h.defs.get(0, []) if d[0] == "stmt"]
            if len(h.defs.get(0, [])) == 1 and len(d0) == 1:
                cm = _cmp_of(h.rvalue_expr(d0[0][3]))
                if cm:
                    rel0, a0, b0 = cm
                    hit = None
                    if a0[0] == "arg" and a0[1] == pi + 1 and rhs_pred(b0):
                        hit = (rel0, b0)
                    elif b0[0] == "arg" and b0[1] == pi + 1 and rhs_pred(a0):
                        hit = (_FLIP[rel0], a0)
                    if hit:
                        for e in result_edges(body, s, {"true"}):
                            out.append(dict(edge=e, rel=hit[0], lhs=actual, rhs=hit[1], switch=e[0], via=h.npath))
                        for e in result_edges(body, s, {"false"}):
                            out.append(dict(edge=e, rel=_NEG[hit[0]], lhs=actual, rhs=hit[1], switch=e[0], via=h.npath))
                        continue
            inner = rel_edges(h, lambda e, pi=pi: e[0] == "arg" and e[1] == pi + 1, rhs_pred)
            if not inner:
                continue
            z = zero_assigns(h)
            succ_bbs = [bb for bb, v in z.items() if v.startswith("std::result::Result::Ok{") or v == "1"]
            for rel in ("le", "lt", "ge", "gt", "eq", "ne"):
                es = {x["edge"] for x in inner if x["rel"] == rel}
                if es and succ_bbs and all(h.must_pass_edges(bb, es) for bb in succ_bbs):
                    rhs = [x["rhs"] for x in inner if x["rel"] == rel][0]
                    for e in result_edges(body, s, {"Continue", "Ok", "true"}):
                        out.append(dict(edge=e, rel=rel, lhs=actual, rhs=rhs, switch=e[0], via=h.npath))
    return out


_ADAPT = re.compile(r"(Result|Poll|Option)::(map_err|map|map_ok|ok|ok_or|ok_or_else|transpose)$|ops::Try>?::branch$|convert::Into>?::into$|hint::must_use$")


def _call_chain(cond):
    """Calls whose (success of the) result the condition tests: strips discr / Not / downcast / field wrappers and looks
    through success-preserving adaptors (`?`, map, map_err, map_ok, ok, transpose ..).  Outermost first."""
    e, out = cond, []
    for _ in range(24):
        t = e[0]
        if t == "discr":
            e = e[1]
        elif t == "un" and e[1] == "Not":
            e = e[2]
        elif t in ("downcast", "field"):
            e = e[1]
        elif t == "call" and _ADAPT.search(strip_generics(e[1])) and e[2]:
            e = e[2][0]
        elif t == "call":
            out.append(e)
            break
        else:
            break
    return out


def _core_call(cond):
    ch = _call_chain(cond)
    return ch[-1] if ch else None


def result_edges(body, site, labels):
    """Edges of switches that test the *result of the call at `site`* (through `?`, `ready!`, `match`, `if`), with all
    labels in `labels`."""
    labels = set(labels)
    out = set()
    for bi in body.live:
        info = body.switch_info(bi)
        if not info:
            continue
        c = _core_call(info[0])
        if c is None or c[3] != site.bb:
            continue
        neg = info[0][0] == "un" and info[0][1] == "Not"
        for tgt, ls in info[1].items():
            ls2 = {("false" if l == "true" else "true" if l == "false" else l) for l in ls} if neg else set(ls)
            if ls2 and ls2 <= labels:
                out.add((bi, tgt))
    return out


def edges_with(rels, wanted):
    return {x["edge"] for x in rels if x["rel"] in wanted}


def ok_edges(body, site):
    """Edges on which the call at `site` is known to have succeeded: `?` (Continue), `match .. { Ok(..) / Some(..) }`."""
    return result_edges(body, site, {"Continue", "Ok"})


def is_err_result(text):
    """A `_0` value that is an error exit (explicit `Err(..)`, `?` residual, `Poll::Ready(Err(..))`, `self.on_error(..)`)."""
    return ("from_residual" in text or text.startswith("std::result::Result::Err{") or text.startswith("std::task::Poll::Ready{0: std::result::Result::Err{")
            or text.endswith("::on_error") or "Multiplexed::on_error(" in text)


def eq_edges(body, pa, pb):
    """(equal_edges, unequal_edges): CFG edges on which `A == B` resp. `A != B` is known, for tests `A == B` / `A != B`
    (any PartialEq impl, either operand order, `!(..)` looked through) whose rendered operands satisfy pa / pb."""
    eq, ne = set(), set()
    for bi in body.live:
        info = body.switch_info(bi)
        if not info:
            continue
        c, neg = info[0], False
        while c[0] == "un" and c[1] == "Not":
            c, neg = c[2], not neg
        if c[0] == "bin" and c[1] in ("Eq", "Ne"):
            is_eq, x, y = c[1] == "Eq", render(c[2]), render(c[3])
        elif c[0] == "call" and len(c[2]) == 2 and re.search(r"::(eq|ne)$", strip_generics(c[1])):
            is_eq, x, y = strip_generics(c[1]).endswith("::eq"), render(c[2][0]), render(c[2][1])
        else:
            continue
        if not ((pa(x) and pb(y)) or (pa(y) and pb(x))):
            continue
        for tgt, ls in info[1].items():
            for lab in ls:
                if lab not in ("true", "false"):
                    continue
                holds = (lab == "true") != neg          # truth of the tested expression on this edge
                (eq if holds == is_eq else ne).add((bi, tgt))
    return eq, ne


def is_min_of(e, pa, pb):
    """e is `min(A, B)` (cmp::min / Ord::min, either operand order) with rendered operands satisfying pa / pb."""
    if e[0] == "call" and len(e[2]) == 2 and re.search(r"(^|::)(cmp::min|Ord::min|cmp::Ord::min|min)$", strip_generics(e[1])):
        x, y = e[2]
        return (pa(x) and pb(y)) or (pa(y) and pb(x))
    return False


_SELF_FORMS = re.compile(r"std::pin::Pin::get_mut\(self\)|<std::pin::Pin as std::ops::DerefMut>::deref_mut\(self\)|<std::pin::Pin as std::ops::Deref>::deref\(self\)"
                         r"|std::pin::Pin::get_ref\(self\)|std::pin::Pin::into_inner\(self\)")


def norm_self(text, alias="this"):
    """Render every way of reaching the receiver through `Pin<&mut Self>` (get_mut / deref / deref_mut, or a local alias
    bound to it) as `this`."""
    t = _SELF_FORMS.sub("this", text)
    if alias != "this":
        t = re.sub(r"(?<![\w:])%s(?=[.)@, ])" % re.escape(alias), "this", t)
    return t


def upvar_map(prog, body, closure_expr):
    """For a ('closure', def, upvars) expression in `body`: (closure body, dict captured-name (without `*`) -> the parent's operand expression)."""
    cl = prog.closure_body(body, closure_expr[1])
    names = {}

    def scan(p):
        for pr in (p or {}).get("pr", ()):
            if pr.get("k") == "field" and str(pr.get("n", "")).startswith("upvar:") and pr.get("i") is not None:
                names[pr["i"]] = pr["n"].split(":", 1)[1].lstrip("*")
    for blk in cl.blocks:
        for st in blk["stmts"]:
            if st["k"] == "assign":
                scan(st["p"])
                r = st["r"]
                scan(r.get("p"))
                for key in ("o", "a", "b"):
                    o = r.get(key)
                    if isinstance(o, dict):
                        scan(o.get("p"))
                for o in r.get("ops", ()):
                    scan(o.get("p"))
        t = blk["term"]
        if t:
            for a in t.get("args", ()):
                scan(a.get("p"))
    return cl, {names.get(i, "#%d" % i): x for i, x in enumerate(closure_expr[2])}


def sections(ctx, *fns):
    """Run the rule sections of a module one by one; a section that meets a code shape it cannot interpret is reported as
    one failing obligation (fail closed) without hiding the verdicts of the other sections."""
    import traceback
    for fn in fns:
        try:
            fn(ctx)
        except mir.RuleError as e:
            ctx.ob("anchor", "%s: %s" % (fn.__name__.strip("_"), str(e)[:100]), False, msg="fail closed: " + str(e), nontrivial=False)
        except Exception:
            ctx.ob("anchor", "%s: code shape not understood" % fn.__name__.strip("_"), False, msg="fail closed: " + traceback.format_exc()[-1200:], nontrivial=False)


# ---------------------------------------------------------------------------- round 2: helper extraction + private-name independence
def local_callees(prog, body):
    """(site, callee body) for every call in `body` that resolves to a function/method of the same crate."""
    by = getattr(prog, "_by_npath_" + body.crate, None)
    if by is None:
        by = {}
        for b in prog.bodies(body.crate):
            by.setdefault(b.npath, b)
        setattr(prog, "_by_npath_" + body.crate, by)
    out = []
    for s in body.call_sites():
        h = by.get(strip_generics(body.call_name(s.term)))
        if h is not None and h is not body:
            out.append((s, h))
    return out


def rename_fn(prog, crate, actual, canon):
    """Make the private function whose (generic-stripped) path is `actual` known to all rules as `canon` — in the
    loaded facts of this process only.  Used after a *role-based* lookup so that no rule depends on a private name."""
    if actual == canon:
        return
    for b in prog.bodies(crate):
        if b.npath == actual or b.npath.startswith(actual + "::"):
            b.npath = canon + b.npath[len(actual):]
            b.short = b.npath.split("::", 1)[-1]
        for blk in b.blocks:
            t = blk["term"]
            if t and t["k"] == "call":
                for key in ("res", "fn"):
                    if key in t and strip_generics(t[key]) == actual:
                        t[key] = canon
        b._expr_cache.clear()
    if hasattr(prog, "_by_npath_" + crate):
        delattr(prog, "_by_npath_" + crate)


def by_role(prog, crate, canon, candidates, what=""):
    """`candidates`: bodies that play the role.  If exactly one distinct body plays it, it is (re)named `canon`.
    A failed/ambiguous lookup leaves everything as it is (the name-based anchor then decides, fail closed)."""
    uniq = []
    for b in candidates:
        if b is not None and b not in uniq:
            uniq.append(b)
    if len(uniq) == 1:
        rename_fn(prog, crate, uniq[0].npath, canon)
        return uniq[0]
    return None


def inline_view(prog, body, only_private=True, exclude=r"::io::Multiplexed::(%s)$|::SubstreamState::|::stream::state::State::|::stream::io_poll_next$"):
    """Crate-local helpers called from `body` at exactly one site, prepared so that their expressions read as if the helper
    were still inlined: the helper's parameters are rendered as the caller's actual argument expressions.
    Returns list of (call site in body, helper body)."""
    seen = {}
    for s, h in local_callees(prog, body):
        seen.setdefault(h.npath, []).append((s, h))
    out = []
    for lst in seen.values():
        if len(lst) != 1:
            continue
        s, h = lst[0]
        if only_private and not str(h.vis).startswith("in:"):
            continue          # pub / pub(crate) items are API, not extracted blocks
        if exclude and re.search(exclude % "|".join(IO_ARGS) if "%s" in exclude else exclude, h.npath):
            continue          # functions that rules anchor on keep their own canonical parameter names
        if len(prog.callers(body.crate, "^" + re.escape(h.npath) + "$")) != 1:
            continue          # only helpers with a single call site in the crate read as "an extracted block"
        args = body.site_expr(s)[2]
        if len(args) != h.argc:
            continue
        canon_args(h, [render(a) for a in args])
        out.append((s, h))
    return out


def scoped_sites(prog, body, pat, helpers=None):
    """Call sites matching `pat` in `body` and, one level down, in its single-use private helpers:
    list of (site, owner body, via) with via = the call site in `body` through which the owner is reached (None for body)."""
    helpers = inline_view(prog, body) if helpers is None else helpers
    out = [(s, body, None) for s in body.call_sites(pat)]
    for via, h in helpers:
        out += [(s, h, via) for s in h.call_sites(pat)]
    return out


def scoped_dominated(body, found, edges_of):
    """`found` = (site, owner, via): every path to the site passes an edge of edges_of(owner) inside the owner, or (helper) every
    path to the helper's call passes an edge of edges_of(body)."""
    s, owner, via = found
    e = edges_of(owner)
    if e and owner.must_pass_edges(s.bb, e):
        return True
    if via is not None:
        e2 = edges_of(body)
        return bool(e2) and body.must_pass_edges(via.bb, e2)
    return False


# ---------------------------------------------------------------------------- role-based identification of private functions
def _find(prog, crate, pat):
    hits = prog.find(crate, pat)
    return hits[0] if len(hits) == 1 else None


def _is_switch_cond(body, site):
    for bi in body.live:
        info = body.switch_info(bi)
        if info:
            c = info[0]
            while c[0] == "un" and c[1] == "Not":
                c = c[2]
            if c[0] == "call" and c[3] == site.bb:
                return True
    return False


def canon_roles(prog, crate):
    """Identify the *private* helper functions the rules talk about by the role they play (who calls them, with what, what
    they do) and make them known under their canonical names, so that renaming a private fn never matters.  Every
    lookup is fail-soft: if a role cannot be resolved unambiguously nothing is renamed and the name-based anchor decides."""
    if getattr(prog, "_roles_" + crate, False):
        return
    setattr(prog, "_roles_" + crate, True)
    try:
        {"libp2p_mplex": _roles_mplex, "libp2p_yamux": _roles_yamux, "libp2p_mdns": _roles_mdns, "libp2p_webrtc_utils": _roles_webrtc}.get(crate, lambda p: None)(prog)
    except Exception:
        pass


def _roles_yamux(prog):
    c = "libp2p_yamux"
    by_role(prog, c, "libp2p_yamux::Muxer::poll_inner", [b for b in prog.bodies(c) if b.kind != "closure" and b.call_sites(r"yamux::Connection::poll_next_inbound$")])


def _roles_webrtc(prog):
    c = "libp2p_webrtc_utils"
    pr = _find(prog, c, r"^libp2p_webrtc_utils::<stream::Stream as futures::AsyncRead>::poll_read$")
    if pr is None:
        return
    cands = [h for s, h in local_callees(prog, pr) if "::state::State::" not in h.npath and pr.site_expr(s)[2] and norm_self(render(pr.site_expr(s)[2][0])).endswith(".io")]
    by_role(prog, c, "libp2p_webrtc_utils::stream::io_poll_next", cands)


def _roles_mdns(prog):
    c = "libp2p_mdns"
    D = "libp2p_mdns::behaviour::iface::dns::"
    bq = _find(prog, c, r"iface::dns::build_query_response$")
    if bq is None:
        return
    lc = local_callees(prog, bq)
    by_role(prog, c, D + "append_txt_record", [h for s, h in lc if h.argc == 4 and result_edges(bq, s, {"Ok"})])
    pushed = [render(bq.site_expr(p)[2][1]) for p in bq.call_sites(r"Vec::push$")]
    by_role(prog, c, D + "query_response_packet", [h for s, h in local_callees(prog, bq) if any(render(bq.site_expr(s)) == x for x in pushed)])
    by_role(prog, c, D + "generate_peer_name", [h for s, h in local_callees(prog, bq) if h.argc == 0])
    tr = _find(prog, c, r"iface::dns::append_txt_record$")
    if tr is not None:
        by_role(prog, c, D + "append_character_string", [h for s, h in local_callees(prog, tr) if h.argc == 2 and ok_edges(tr, s)])
        for h in {h.npath: h for s, h in local_callees(prog, tr) if h.argc == 2 and not h.call_sites(r"iface::dns::")}.values():
            n = len(h.call_sites(r"Vec::push$"))
            if n in (2, 4) and len(h.call_sites()) == n:
                rename_fn(prog, c, h.npath, D + ("append_u32" if n == 4 else "append_u16"))
    gp = _find(prog, c, r"iface::dns::generate_peer_name$")
    if gp is not None:
        by_role(prog, c, D + "random_string", [h for s, h in local_callees(prog, gp) if h.argc == 1])
        by_role(prog, c, D + "append_qname", [h for s, h in local_callees(prog, gp) if h.argc == 2])


def _roles_mplex(prog):
    c = "libp2p_mplex"
    P = "libp2p_mplex::io::Multiplexed::"
    pns = _find(prog, c, r"^libp2p_mplex::io::Multiplexed::poll_next_stream$")
    if pns is not None:
        for bi in sorted(pns.live):
            info = pns.switch_info(bi)
            if info and info[0][0] == "discr" and {l for ls in info[1].values() for l in ls} == {"Open", "Data", "Close", "Reset"}:
                core = _core_call(info[0])
                if core is None:
                    continue
                hd = core[3]
                by_role(prog, c, P + "poll_read_frame", [h for s, h in local_callees(prog, pns) if s.bb == hd])
                arms = {l: t for t, ls in info[1].items() for l in ls}
                for v, role in (("Data", "buffer"), ("Close", "on_close"), ("Reset", "on_reset"), ("Open", "on_open")):
                    reach = pns.reachable([arms[v]], stop_nodes=[hd])
                    by_role(prog, c, P + role, [h for s, h in local_callees(prog, pns) if s.bb in reach and s.bb != hd and ("@%s." % v) in render(pns.site_expr(s)) and "::io::Multiplexed::" in h.npath])
                break
        first = [h for s, h in sorted(local_callees(prog, pns), key=lambda x: x[0].bb) if h.argc == 1 and "::io::Multiplexed::" in h.npath]
        by_role(prog, c, P + "guard_open", first[:1])
    by_role(prog, c, P + "on_error", [b for b in prog.bodies(c) if b.kind != "closure" and "::io::Multiplexed::" in b.npath and b.argc == 2 and [s for s in b.field_write_sites("status") if s.si is not None and "Status::Err" in render(b.site_expr(s))]])
    prs = _find(prog, c, r"^libp2p_mplex::io::Multiplexed::poll_read_stream$")
    if prs is not None:
        by_role(prog, c, P + "can_read", [h for s, h in local_callees(prog, prs) if h.argc == 2 and "::io::Multiplexed::" in h.npath and _is_switch_cond(prs, s)])
    ss = [b for b in prog.bodies(c) if b.kind != "closure" and "::io::SubstreamState::" in b.npath and b.argc == 1 and not b.npath.startswith("libp2p_mplex::<")]
    opt = [b for b in ss if any(v == "std::option::Option::None{}" for v in zero_assigns(b).values())]
    if len(ss) == 2 and len(opt) == 1:
        rename_fn(prog, c, opt[0].npath, "libp2p_mplex::io::SubstreamState::recv_buf_open")
        rename_fn(prog, c, [b for b in ss if b is not opt[0]][0].npath, "libp2p_mplex::io::SubstreamState::recv_buf")
    pws = _find(prog, c, r"^libp2p_mplex::io::Multiplexed::poll_write_stream$")
    if pws is not None:
        by_role(prog, c, P + "poll_send_frame", [h for s, h in local_callees(prog, pws) if any(x[0] == "closure" for a in pws.site_expr(s)[2] for x in mir.walk(a))])
    pos = _find(prog, c, r"^libp2p_mplex::io::Multiplexed::poll_open_stream$")
    if pos is not None:
        opens = [render(pos.site_expr(a)) for a in pos.agg_sites(r"codec::Frame$", "Open")]
        by_role(prog, c, P + "next_outbound_stream_id", [h for s, h in local_callees(prog, pos) if h.argc == 1 and any(render(pos.site_expr(s)) in o for o in opens)])
    for b in [b for b in prog.bodies(c) if b.kind != "closure" and b.npath.startswith("libp2p_mplex::codec::RemoteStreamId::") and b.argc == 1]:
        ag = b.agg_sites(r"codec::RemoteStreamId$")
        if len(ag) == 1:
            m = re.search(r"role: libp2p_core::Endpoint::(Dialer|Listener)\{\}", render(b.site_expr(ag[0])))
            if m:
                rename_fn(prog, c, b.npath, "libp2p_mplex::codec::RemoteStreamId::" + m.group(1).lower())
    by_role(prog, c, "libp2p_mplex::Substream::new", [b for b in prog.bodies(c) if b.kind != "closure" and b.argc == 2 and b.agg_sites(r"^libp2p_mplex::Substream$")])
