"""Helpers shared by the muxer / codec / webrtc / mdns property modules (C24-C26, C55-C57)."""
import re

from . import mir
from .mir import render, strip_generics, Site


def fsm_extract_field(body, state_adt_pat, field, dispatch_pat=r"^discr\(std::mem::replace\(", classify=None):
    """Transition relation of a `loop { match mem::replace(&mut self.<field>, Poison) {..} }` decoder.

    Same result shape as lib.fsm_extract, but the state lives in an arbitrarily named field, and results are
    classified by `classify(rendered _0 value) -> kind` (call results: 'residual' for `?`, else 'call').
    Returns arm -> {'next': [(variant, fields, site)], 'on': {kind: [(variant|None, fields, site)]},
                    'exits': set(kinds), 'continue_unstored': bool, 'entry': bb}."""
    rx = re.compile(dispatch_pat)
    disp = None
    for bi in sorted(body.live):
        info = body.switch_info(bi)
        if info and rx.search(render(info[0])) and ("." + field) in render(info[0]):
            disp = (bi, info)
            break
    if disp is None:
        raise mir.RuleError("state dispatch on .%s not found in %s" % (field, body.npath))
    dbb, (cond, labs) = disp
    head = None
    for s in mir.walk(cond):
        if s[0] == "call":
            head = s[3]
            break
    arx = re.compile(state_adt_pat)
    stores = {}
    for bi in body.live:
        for si, st in enumerate(body.blocks[bi]["stmts"]):
            if st["k"] == "assign" and st["p"].get("pr"):
                prs = st["p"]["pr"]
                if not (prs[-1]["k"] == "field" and prs[-1]["n"] == field):
                    continue
                e = body.rvalue_expr(st["r"])
                if e[0] == "agg" and e[1] == "adt" and arx.search(strip_generics(e[2])):
                    stores.setdefault(bi, []).append((e[3], dict((f, render(x)) for f, x in e[4]), Site(body, bi, si)))
                else:
                    stores.setdefault(bi, []).append(("?", {"value": render(e)}, Site(body, bi, si)))
    results = {}
    for d in body.defs.get(0, []):
        bi = d[1]
        if d[0] == "stmt":
            k = classify(render(body.rvalue_expr(d[3])))
        else:
            k = "residual" if "from_residual" in body.call_name(d[3]) else "call"
        results[bi] = k
    out = {}
    for tgt, ls in labs.items():
        for arm in ls:
            rec = {"next": [], "exits": set(), "on": {}, "continue_unstored": False, "entry": tgt}
            seen = set()
            stack = [(tgt, None)]
            while stack:
                b, last = stack.pop()
                if (b, last) in seen:
                    continue
                seen.add((b, last))
                if b in stores:
                    last = b
                if b in results:
                    k = results[b]
                    rec["exits"].add(k)
                    lst = rec["on"].setdefault(k, [])
                    for v in (stores[last] if last is not None else [(None, {}, None)]):
                        if v not in lst:
                            lst.append(v)
                    continue
                t = body.blocks[b]["term"]
                if t and t["k"] == "call" and "t" not in t:
                    rec["exits"].add("panic")
                    continue
                for s in body.succ[b]:
                    if s == head:
                        if last is None:
                            rec["continue_unstored"] = True
                        else:
                            for v in stores[last]:
                                if v not in rec["next"]:
                                    rec["next"].append(v)
                        continue
                    stack.append((s, last))
            out[arm] = rec
    return out, head


def accept_edges_le(body, lhs_pred, rhs_pred):
    """Edges on which `lhs <= rhs` is known, for integer comparisons whose operands satisfy the predicates on their
    rendered text: false-edge of `lhs > rhs`, true-edge of `lhs <= rhs`, false-edge of `rhs < lhs`, true-edge of
    `rhs >= lhs`.  Also returns the edges of stricter tests (`lhs >= rhs` false / `lhs < rhs` true) and the list of
    (switch bb, op, lhs text) of every comparison found."""
    le, lt, found = set(), set(), []
    flip = {"Lt": "Gt", "Le": "Ge", "Gt": "Lt", "Ge": "Le"}
    for bi in body.live:
        info = body.switch_info(bi)
        if not info:
            continue
        cond, labs = info
        if cond[0] != "bin" or cond[1] not in flip:
            continue
        a, b = render(cond[2]), render(cond[3])
        if lhs_pred(a) and rhs_pred(b):
            op, l = cond[1], a
        elif lhs_pred(b) and rhs_pred(a):
            op, l = flip[cond[1]], b
        else:
            continue
        found.append((bi, op, l))
        for tgt, ls in labs.items():
            for lab in ls:
                if (op, lab) in (("Gt", "false"), ("Le", "true")):
                    le.add((bi, tgt))
                elif (op, lab) in (("Ge", "false"), ("Lt", "true")):
                    lt.add((bi, tgt))
    return le, lt, found


def zero_assigns(body):
    """dict bb -> rendered value for `_0 = <aggregate/use>` statements; call-defined results are keyed 'call:<name>'."""
    out = {}
    for d in body.defs.get(0, []):
        if d[0] == "stmt":
            out[d[1]] = render(body.rvalue_expr(d[3]))
        else:
            out[d[1]] = "call:" + strip_generics(body.call_name(d[3]))
    return out


def overflow_asserts(body):
    """Overflow `Assert` terminators of a body: list of (rendered condition, message, Site)."""
    out = []
    for bi in sorted(body.live):
        t = body.blocks[bi]["term"]
        if t and t["k"] == "assert" and t["msg"].startswith("overflow"):
            out.append((render(body.operand_expr(t["c"])), t["msg"], Site(body, bi)))
    return out
