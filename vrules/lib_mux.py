"""Helpers shared by the muxer / codec / webrtc / mdns property modules (C24-C26, C55-C57)."""
import re

from . import mir
from .mir import render, strip_generics, Site


def fsm_extract_field(body, state_adt_pat, field, dispatch_pat=r"^discr\(std::mem::replace\(", classify=None):
    """Transition relation of a `loop { match mem::replace(&mut self.<field>, Poison) {..} }` decoder.

    Same result shape as lib.fsm_extract, but the state lives in an arbitrarily named field, and results are
    classified by `classify(rendered _0 value) -> kind` (call results: 'residual' for `?`, else 'call').
    Returns arm -> {'next': [(variant, fields, site)], 'on': {kind: [(variant|None, fields, site)]},
                    'exits': set(kinds), 'continue_unstored': bool, 'entry': bb}."""
    rx = re.compile(dispatch_pat)
    disp = None
    for bi in sorted(body.live):
        info = body.switch_info(bi)
        if info and rx.search(render(info[0])) and ("." + field) in render(info[0]):
            disp = (bi, info)
            break
    if disp is None:
        raise mir.RuleError("state dispatch on .%s not found in %s" % (field, body.npath))
    dbb, (cond, labs) = disp
    head = None
    for s in mir.walk(cond):
        if s[0] == "call":
            head = s[3]
            break
    arx = re.compile(state_adt_pat)
    stores = {}
    for bi in body.live:
        for si, st in enumerate(body.blocks[bi]["stmts"]):
            if st["k"] == "assign" and st["p"].get("pr"):
                prs = st["p"]["pr"]
                if not (prs[-1]["k"] == "field" and prs[-1]["n"] == field):
                    continue
                e = body.rvalue_expr(st["r"])
                if e[0] == "agg" and e[1] == "adt" and arx.search(strip_generics(e[2])):
                    stores.setdefault(bi, []).append((e[3], dict((f, render(x)) for f, x in e[4]), Site(body, bi, si)))
                else:
                    stores.setdefault(bi, []).append(("?", {"value": render(e)}, Site(body, bi, si)))
    results = {}
    for d in body.defs.get(0, []):
        bi = d[1]
        if d[0] == "stmt":
            k = classify(render(body.rvalue_expr(d[3])))
        else:
            k = "residual" if "from_residual" in body.call_name(d[3]) else "call"
        results[bi] = k
    out = {}
    for tgt, ls in labs.items():
        for arm in ls:
            rec = {"next": [], "exits": set(), "on": {}, "continue_unstored": False, "entry": tgt}
            seen = set()
            stack = [(tgt, None)]
            while stack:
                b, last = stack.pop()
                if (b, last) in seen:
                    continue
                seen.add((b, last))
                if b in stores:
                    last = b
                if b in results:
                    k = results[b]
                    rec["exits"].add(k)
                    lst = rec["on"].setdefault(k, [])
                    for v in (stores[last] if last is not None else [(None, {}, None)]):
                        if v not in lst:
                            lst.append(v)
                    continue
                t = body.blocks[b]["term"]
                if t and t["k"] == "call" and "t" not in t:
                    rec["exits"].add("panic")
                    continue
                for s in body.succ[b]:
                    if s == head:
                        if last is None:
                            rec["continue_unstored"] = True
                        else:
                            for v in stores[last]:
                                if v not in rec["next"]:
                                    rec["next"].append(v)
                        continue
                    stack.append((s, last))
            out[arm] = rec
    return out, head


def accept_edges_le(body, lhs_pred, rhs_pred):
    """Edges on which `lhs <= rhs` is known, for integer comparisons whose operands satisfy the predicates on their
    rendered text: false-edge of `lhs > rhs`, true-edge of `lhs <= rhs`, false-edge of `rhs < lhs`, true-edge of
    `rhs >= lhs`.  Also returns the edges of stricter tests (`lhs >= rhs` false / `lhs < rhs` true) and the list of
    (switch bb, op, lhs text) of every comparison found."""
    le, lt, found = set(), set(), []
    flip = {"Lt": "Gt", "Le": "Ge", "Gt": "Lt", "Ge": "Le"}
    for bi in body.live:
        info = body.switch_info(bi)
        if not info:
            continue
        cond, labs = info
        if cond[0] != "bin" or cond[1] not in flip:
            continue
        a, b = render(cond[2]), render(cond[3])
        if lhs_pred(a) and rhs_pred(b):
            op, l = cond[1], a
        elif lhs_pred(b) and rhs_pred(a):
            op, l = flip[cond[1]], b
        else:
            continue
        found.append((bi, op, l))
        for tgt, ls in labs.items():
            for lab in ls:
                if (op, lab) in (("Gt", "false"), ("Le", "true")):
                    le.add((bi, tgt))
                elif (op, lab) in (("Ge", "false"), ("Lt", "true")):
                    lt.add((bi, tgt))
    return le, lt, found


def zero_assigns(body):
    """dict bb -> rendered value for `_0 = <aggregate/use>` statements; call-defined results are keyed 'call:<name>'."""
    out = {}
    for d in body.defs.get(0, []):
        if d[0] == "stmt":
            out[d[1]] = render(body.rvalue_expr(d[3]))
        else:
            out[d[1]] = "call:" + strip_generics(body.call_name(d[3]))
    return out


def overflow_asserts(body):
    """Overflow `Assert` terminators of a body: list of (rendered condition, message, Site)."""
    out = []
    for bi in sorted(body.live):
        t = body.blocks[bi]["term"]
        if t and t["k"] == "assert" and t["msg"].startswith("overflow"):
            out.append((render(body.operand_expr(t["c"])), t["msg"], Site(body, bi)))
    return out


# ---------------------------------------------------------------------------- mplex io.rs helpers (C24, C26)
MP = "libp2p_mplex"


def io_body(ctx, name):
    return ctx.body(MP, r"^libp2p_mplex::io::Multiplexed::%s$" % name)


def substream_inserts(body):
    """`self.substreams.insert(key, value)` call sites of a body: list of (site, key text, value expr)."""
    out = []
    for s in body.call_sites(r"HashMap::insert$"):
        e = body.site_expr(s)
        if render(e[2][0]) == "self.substreams":
            out.append((s, render(e[2][1]), e[2][2]))
    return out


def variant_table(body, state_pat, variants, classify, extra=None):
    """Abstractly run `body` once per enum variant: at switches whose rendered condition matches `state_pat` only the
    edge of that variant is followed (other atoms: `extra` = dict atom-regex -> label); every other switch is
    followed on all edges.  Returns (dict variant -> sorted list of classify(rendered `_0` value)), unknown-conditions)."""
    from . import lib
    z = zero_assigns(body)
    amap = [(state_pat, "state")] + [(p, "x%d" % i) for i, p in enumerate(extra or {})]
    tab, unk_all = {}, set()
    for v in variants:
        asg = {"state": v}
        for i, p in enumerate(extra or {}):
            asg["x%d" % i] = extra[p]
        res, unk, bare = lib.cell_eval(body, asg, amap, set(z))
        unk_all |= unk
        tab[v] = sorted({classify(z[b]) for b in res})
    return tab, unk_all


def frame_switch(body):
    """The 4-way switch on a received Frame: (switch bb, rendered frame expr, {variant: target bb})."""
    for bi in sorted(body.live):
        info = body.switch_info(bi)
        if not info:
            continue
        cond, labs = info
        allv = {l for ls in labs.values() for l in ls}
        if cond[0] == "discr" and allv == {"Open", "Data", "Close", "Reset"} and "poll_read_frame" in render(cond):
            return bi, render(cond[1]), {l: t for t, ls in labs.items() for l in ls}
    raise mir.RuleError("no Frame dispatch in %s" % body.npath)


def result_blocks(body, pred):
    """Blocks assigning `_0` a value whose rendering satisfies pred (statement results) or whose callee does (calls)."""
    return sorted(b for b, r in zero_assigns(body).items() if pred(r))


# ---------------------------------------------------------------------------- K7: exact cell evaluation of small enum-state functions
class CellEval:
    """Push ONE fully concrete cell (values of the argument places) through a MIR body deterministically.

    Values: bool / int / str / (variant, {field: value}) for enum aggregates / ('call', name, [args]) for opaque calls.
    `args`: dict arg-index -> value (an arg that is `&mut State` holds the State value; stores through it update it).
    Result of run(): dict(kind='return'|'panic'|'unknown', ret=value, args=final arg values, calls=[names], why=text).
    Nothing of the analysed program is executed: statements are interpreted over this finite value domain only; any
    construct outside the domain makes the cell 'unknown' (fail closed)."""

    def __init__(self, body, max_steps=400):
        self.b = body
        self.max_steps = max_steps

    class Unknown(Exception):
        pass

    def _place(self, p, env, args):
        l = p["l"]
        if 1 <= l <= self.b.argc:
            v = args.get(l, ("?arg%d" % l,))
        elif l in env:
            v = env[l]
        else:
            raise CellEval.Unknown("read of unset local _%d" % l)
        for pr in p.get("pr", ()):
            k = pr["k"]
            if k == "deref":
                continue
            if k == "downcast":
                if not (isinstance(v, tuple) and len(v) == 2 and isinstance(v[1], dict)) or v[0] != pr["v"]:
                    raise CellEval.Unknown("downcast %s of %r" % (pr["v"], v))
                continue
            if k == "field":
                if isinstance(v, tuple) and len(v) == 2 and isinstance(v[1], dict) and pr["n"] in v[1]:
                    v = v[1][pr["n"]]
                    continue
                raise CellEval.Unknown("field %s of %r" % (pr["n"], v))
            raise CellEval.Unknown("projection %s" % k)
        return v

    def _operand(self, o, env, args):
        k = o["k"]
        if k in ("copy", "move"):
            return self._place(o["p"], env, args)
        if k == "const":
            if "v" in o:
                v = _to_int(o["v"])
                if o.get("ty") == "bool":
                    return bool(v)
                return v
            if "s" in o:
                return o["s"]
            if o.get("ty") == "()":
                return ()
            return ("const", o.get("t") or o.get("def") or "?")
        raise CellEval.Unknown("operand %s" % k)

    def _rvalue(self, r, env, args):
        k = r["k"]
        if k == "use":
            return self._operand(r["o"], env, args)
        if k in ("ref", "rawptr", "copyderef"):
            return self._place(r["p"], env, args)
        if k == "discr":
            v = self._place(r["p"], env, args)
            if isinstance(v, tuple) and len(v) == 2 and isinstance(v[1], dict):
                return ("discr", v[0])
            raise CellEval.Unknown("discriminant of %r" % (v,))
        if k == "agg":
            ops = [self._operand(o, env, args) for o in r["ops"]]
            if r["ak"] == "adt":
                fields = r.get("fields", [])
                return (r["variant"], {fields[i] if i < len(fields) else str(i): ops[i] for i in range(len(ops))})
            if r["ak"] == "tuple":
                return ("tuple", {str(i): ops[i] for i in range(len(ops))})
            raise CellEval.Unknown("aggregate %s" % r["ak"])
        if k == "cast":
            return self._operand(r["o"], env, args)
        if k == "un" and r["op"] == "Not":
            v = self._operand(r["a"], env, args)
            if isinstance(v, bool):
                return not v
        if k == "bin" and r["op"] in ("Eq", "Ne"):
            a, b = self._operand(r["a"], env, args), self._operand(r["b"], env, args)
            return (a == b) if r["op"] == "Eq" else (a != b)
        raise CellEval.Unknown("rvalue %s" % k)

    def _store(self, p, v, env, args):
        l = p["l"]
        prs = [pr for pr in p.get("pr", ()) if pr["k"] != "deref"]
        if prs:
            raise CellEval.Unknown("partial store")
        if 1 <= l <= self.b.argc:
            args[l] = v
        else:
            env[l] = v

    def run(self, args):
        b = self.b
        env, args = {}, dict(args)
        calls = []
        bi, steps = 0, 0
        try:
            while True:
                steps += 1
                if steps > self.max_steps:
                    return dict(kind="unknown", why="step budget", args=args, calls=calls, ret=None)
                blk = b.blocks[bi]
                for st in blk["stmts"]:
                    if st["k"] == "assign":
                        self._store(st["p"], self._rvalue(st["r"], env, args), env, args)
                t = blk["term"]
                k = t["k"]
                if k in ("goto", "falseedge", "falseunwind", "drop"):
                    bi = t["t"]
                elif k == "return":
                    return dict(kind="return", ret=env.get(0, ()), args=args, calls=calls, why="")
                elif k == "switch":
                    v = self._operand(t["o"], env, args)
                    info = b.switch_info(bi)
                    lab = v[1] if isinstance(v, tuple) and v[0] == "discr" else ("true" if v is True else "false" if v is False else v)
                    nxt = [tg for tg, ls in info[1].items() if lab in ls]
                    if len(nxt) != 1:
                        nxt = [tg for tg, ls in info[1].items() if "otherwise" in ls]
                    if len(nxt) != 1:
                        raise CellEval.Unknown("switch on %r has no unique target" % (v,))
                    bi = nxt[0]
                elif k == "call":
                    name = strip_generics(b.call_name(t))
                    calls.append(name)
                    if "t" not in t:
                        return dict(kind="panic", ret=None, args=args, calls=calls, why=name)
                    vals = []
                    for a in t["args"]:
                        try:
                            vals.append(self._operand(a, env, args))
                        except CellEval.Unknown:
                            vals.append("?")
                    self._store(t["d"], ("call", name, vals), env, args)
                    bi = t["t"]
                elif k == "assert":
                    bi = t["t"]
                elif k == "unreachable":
                    return dict(kind="unknown", why="reached `unreachable`", args=args, calls=calls, ret=None)
                else:
                    raise CellEval.Unknown("terminator %s" % k)
        except CellEval.Unknown as e:
            return dict(kind="unknown", why=str(e), args=args, calls=calls, ret=None)


def _to_int(v):
    try:
        return int(v)
    except (TypeError, ValueError):
        return v


def show_val(v):
    """Canonical short text of a CellEval value."""
    if isinstance(v, bool):
        return "true" if v else "false"
    if isinstance(v, tuple) and len(v) == 2 and isinstance(v[1], dict):
        if not v[1]:
            return v[0]
        if v[0] == "tuple" and not v[1]:
            return "()"
        return "%s{%s}" % (v[0], ", ".join("%s: %s" % (f, show_val(x)) for f, x in v[1].items()))
    if isinstance(v, tuple) and len(v) == 3 and v[0] == "call":
        return "%s(%s)" % (v[1].split("::")[-1], ", ".join(show_val(x) for x in v[2]))
    if v == ():
        return "()"
    return str(v)
