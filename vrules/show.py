"""Developer tool: print a body in readable form.  python3 -m vrules.show <crate> <regex> [--raw]"""
import sys

from . import facts, mir


def show(body, out=sys.stdout):
    w = out.write
    w("== %s  [%s] %s:%d argc=%d vis=%s\n" % (body.npath, body.kind, body.file, body.line, body.argc, body.vis))
    for bi in range(body.n):
        blk = body.blocks[bi]
        if blk.get("cleanup") or bi not in body.live:
            continue
        w(" bb%d:\n" % bi)
        for si, st in enumerate(blk["stmts"]):
            if st["k"] == "assign":
                p = st["p"]
                # only show assignments to named locals / projected places / multi-def locals
                l = p["l"]
                simple = "pr" not in p and l not in body.names and len(body.defs.get(l, [])) == 1 and l != 0
                if simple:
                    continue
                lhs = _lhs(body, p)
                w("   %-4d %s = %s\n" % (st.get("l", 0), lhs, mir.render(body.rvalue_expr(st["r"]))))
            elif st["k"] == "setdiscr":
                w("   %-4d setdiscr %s = %d\n" % (st.get("l", 0), _lhs(body, st["p"]), st["vi"]))
        t = blk["term"]
        if not t:
            continue
        k = t["k"]
        x = (" {%s}" % t["x"]) if "x" in t else ""
        if k == "call":
            e = body.call_expr(t, bi)
            w("   %-4d %s = %s -> %s%s\n" % (t.get("l", 0), _lhs(body, t["d"]), mir.render(e),
                                            ("bb%d" % t["t"]) if "t" in t else "!", x))
        elif k == "switch":
            cond, labels = body.switch_info(bi)
            w("   %-4d switch %s : %s%s\n" % (t.get("l", 0), mir.render(cond),
                                             ", ".join("%s->bb%d" % ("|".join(map(str, sorted(ls, key=str))), b)
                                                       for b, ls in labels.items()), x))
        elif k in ("goto", "falseedge", "falseunwind"):
            w("        goto bb%d\n" % t["t"])
        elif k == "drop":
            w("        drop(%s) -> bb%d\n" % (_lhs(body, t["p"]), t["t"]))
        elif k == "assert":
            w("   %-4d assert[%s] %s -> bb%d\n" % (t.get("l", 0), t["msg"], mir.render(body.operand_expr(t["c"])), t["t"]))
        elif k == "yield":
            w("   %-4d yield -> bb%d\n" % (t.get("l", 0), t["t"]))
        else:
            w("   %-4d %s%s\n" % (t.get("l", 0), k, x))


def _lhs(body, p):
    base = body.names.get(p["l"]) or ("_%d" % p["l"])
    s = base
    for pr in p.get("pr", ()):
        k = pr["k"]
        if k == "deref":
            s = "(*%s)" % s
        elif k == "field":
            s += "." + pr["n"]
        elif k == "downcast":
            s += "@" + pr["v"]
        elif k == "index":
            s += "[_%d]" % pr["l"]
        else:
            s += "[%s]" % k
    return s


if __name__ == "__main__":
    crate, pat = sys.argv[1], sys.argv[2]
    if len(sys.argv) > 3:
        mir.RENDER_MAX[0] = int(sys.argv[3])
    fp = facts.ensure_facts()
    prog = mir.Program(fp)
    for b in prog.find(crate, pat):
        show(b)
