"""Trusted models of std::net predicates (documented prefix sets) as DNF over address components, and IANA table loading."""
import ipaddress
import json
import os

from . import absint

TABLES = os.path.join(os.path.dirname(os.path.dirname(os.path.abspath(__file__))), "tables")


def eq8(c):
    return 1 << c


FULL16 = (1 << 65536) - 1


def v4_atoms():
    return [
        (r"net::Ipv4Addr::is_loopback$", lambda ev: [[(0, eq8(127))]]),
        (r"net::Ipv4Addr::is_link_local$", lambda ev: [[(0, eq8(169)), (1, eq8(254))]]),
        (r"net::Ipv4Addr::is_documentation$", lambda ev: [[(0, eq8(192)), (1, eq8(0)), (2, eq8(2))], [(0, eq8(198)), (1, eq8(51)), (2, eq8(100))], [(0, eq8(203)), (1, eq8(0)), (2, eq8(113))]]),
        (r"net::Ipv4Addr::is_broadcast$", lambda ev: [[(0, eq8(255)), (1, eq8(255)), (2, eq8(255)), (3, eq8(255))]]),
        (r"net::Ipv4Addr::is_private$", lambda ev: [[(0, eq8(10))], [(0, eq8(172)), (1, absint.rng(16, 31))], [(0, eq8(192)), (1, eq8(168))]]),
        (r"net::Ipv4Addr::is_unspecified$", lambda ev: [[(i, eq8(0)) for i in range(4)]]),
    ]


def v6_atoms():
    return [
        (r"net::Ipv6Addr::is_unspecified$", lambda ev: [[(i, 1) for i in range(8)]]),
        (r"net::Ipv6Addr::is_loopback$", lambda ev: [[(i, 1) for i in range(7)] + [(7, 2)]]),
    ]


ATOM_DOC = ["std::net::Ipv4Addr::is_loopback = 127.0.0.0/8", "is_link_local = 169.254.0.0/16", "is_documentation = 192.0.2.0/24 | 198.51.100.0/24 | 203.0.113.0/24",
            "is_broadcast = 255.255.255.255", "is_private = 10/8 | 172.16/12 | 192.168/16", "Ipv6Addr::is_unspecified = ::", "Ipv6Addr::is_loopback = ::1"]


def load(name, width, ncomp):
    t = json.load(open(os.path.join(TABLES, name)))

    def cells(lst):
        out = []
        for p in lst:
            n = ipaddress.ip_network(p)
            out.append((p, absint.prefix_cell(width, ncomp, int(n.network_address), n.prefixlen)))
        return out
    return {"not_reachable": cells(t["not_reachable"]), "except": cells(t["except_within_not_reachable"]), "dont_care": cells(t["dont_care"])}


def check_partition(part, table):
    """part: list of (cell, is_global).  Returns (violations, stats)."""
    must_refuse = []
    for name, c in table["not_reachable"]:
        pieces = [c]
        for _, ex in table["except"]:
            pieces = [q for p in pieces for q in absint.subtract(p, ex)]
        for p in pieces:
            must_refuse.append((name, p))
    listed = [c for _, c in table["not_reachable"]] + [c for _, c in table["dont_care"]]
    viol = []
    n_true = n_false = 0
    for cell, res in part:
        if res:
            n_true += absint.size(cell)
            for name, p in must_refuse:
                i = absint.intersect(cell, p)
                if i is not None:
                    viol.append(("passes-nonglobal", name, i))
        else:
            n_false += absint.size(cell)
            rem = [cell]
            for p in listed:
                rem = [q for r in rem for q in absint.subtract(r, p)]
                if not rem:
                    break
            for r in rem:
                viol.append(("refuses-global", "outside every special-purpose block", r))
    return viol, {"addresses_classified_global": n_true, "addresses_classified_nonglobal": n_false, "must_refuse_regions": len(must_refuse), "listed_blocks": len(listed)}
