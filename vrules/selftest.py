"""Sensitivity self-test of a property's rules (thorough tier).

A module may carry `MUTANTS = [{"file": <path relative to the repo root>, "find": <exact source substring, must occur
exactly once>, "replace": <replacement>, "expect": <regex on "rule/instance" of a violated obligation>, "why": <text>}]`.
For each entry the *current* /repo working tree is copied (sources only) to a scratch tree under the cache, the one
textual edit is applied there, facts are re-extracted for that tree (same driver, same flags, separate target dir) and the
property's own `check()` is run on it.  Outcomes:

  fired    the mutated tree compiles and an obligation matching `expect` is violated  (rule is live)
  missed   the mutated tree compiles but no matching obligation is violated           (checker weakness, reported)
  skipped  the anchor text is absent / not unique in today's tree, or the mutant does not compile (nothing learned)

This is analysis of a *variant of the source*, still purely static: no libp2p code runs.  The result is recorded in the
evidence file; it never produces a VIOLATION line (a miss is a weakness of the checker, not a violation of the property
by /repo).  /repo itself is never modified.
"""
import json
import os
import re
import shutil
import subprocess

from . import core, facts, mir


def _sync_tree(repo, dst):
    os.makedirs(dst, exist_ok=True)
    subprocess.run(["rsync", "-a", "--delete", "--exclude", "/target", "--exclude", "/.git", repo.rstrip("/") + "/", dst + "/"],
                   check=True, capture_output=True)


def _evaluate(pid, mod, tier, tree, m, name, res):
    ctx = core.Ctx(pid, None, tier, "mutant")
    try:
        fp = facts.ensure_facts(config="mut", repo=tree)
    except facts.FactError as e:
        res["skipped"].append({"mutant": name, "reason": "mutant does not compile: " + str(e)[-300:]})
        return
    ctx.prog = mir.Program(fp)
    try:
        mod.check(ctx)
    except mir.RuleError as e:
        ctx.ob("anchor", "missing:" + str(e)[:120], False, msg=str(e))
    except Exception as e:
        ctx.ob("engine", "exception", False, msg=repr(e)[:300])
    rx = re.compile(m["expect"])
    known = set(core.load_known()[0])
    bad = ["%s/%s" % (o["rule"], o["instance"]) for o in ctx.obs
           if not o["holds"] and "%s/%s/%s" % (pid, o["rule"], o["instance"]) not in known]
    hit = [b for b in bad if rx.search(b)]
    rec = {"mutant": name, "file": m.get("file") or m.get("patch"), "why": m.get("why", ""), "violated": sorted(set(bad))[:8]}
    (res["fired"] if hit else res["missed"]).append(rec)


def _run_patch(pid, mod, tier, tree, m, res):
    name = m["name"]
    if subprocess.run(["patch", "-p1", "--dry-run", "-s", "-i", m["patch"]], cwd=tree, capture_output=True).returncode != 0:
        res["skipped"].append({"mutant": name, "reason": "patch does not apply to today's tree"})
        return
    subprocess.run(["patch", "-p1", "-s", "--no-backup-if-mismatch", "-i", m["patch"]], cwd=tree, capture_output=True)
    try:
        _evaluate(pid, mod, tier, tree, m, name, res)
    finally:
        subprocess.run(["patch", "-R", "-p1", "-s", "--no-backup-if-mismatch", "-i", m["patch"]], cwd=tree, capture_output=True)


def run(pid, mod, tier="thorough"):
    muts = list(getattr(mod, "MUTANTS", []))
    mf = os.path.join(core.VERIF, "vrules", "mutants", pid.lower() + ".json")
    if os.path.exists(mf):
        muts += json.load(open(mf))
    # independently written breaking changes archived under /verif/seeded/<dir>/ (meta.json names the property)
    sd = os.path.join(core.VERIF, "seeded")
    for d in sorted(os.listdir(sd)) if os.path.isdir(sd) else []:
        mp = os.path.join(sd, d, "meta.json")
        try:
            if json.load(open(mp)).get("property") == pid:
                muts.append({"name": "seeded/" + d, "patch": os.path.join(sd, d, "patch.diff"), "expect": r".",
                             "why": "independently written breaking change (see seeded/%s/README.md)" % d})
        except (OSError, ValueError):
            continue
    res = {"fired": [], "missed": [], "skipped": []}
    if not muts:
        return res
    tree = os.path.join(facts.CACHE, "mut-tree")
    _sync_tree(facts.REPO, tree)
    import time
    t0 = time.time()
    budget = float(os.environ.get("VERIF_SELFTEST_BUDGET", "1200"))
    for i, m in enumerate(muts):
        if time.time() - t0 > budget:
            res["skipped"].append({"mutant": m.get("name", str(i)), "reason": "self-test time budget (%ds) used up" % budget})
            continue
        if "patch" in m:
            _run_patch(pid, mod, tier, tree, m, res)
            continue
        name = m.get("name") or "%s#%d" % (os.path.basename(m["file"]), i)
        path = os.path.join(tree, m["file"])
        try:
            src = open(path).read()
        except OSError:
            res["skipped"].append({"mutant": name, "reason": "file not present"})
            continue
        if src.count(m["find"]) != 1:
            res["skipped"].append({"mutant": name, "reason": "anchor text occurs %d times in today's tree" % src.count(m["find"])})
            continue
        open(path, "w").write(src.replace(m["find"], m["replace"]))
        try:
            _evaluate(pid, mod, tier, tree, m, name, res)
        finally:
            open(path, "w").write(src)
    return res
