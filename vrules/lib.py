"""Reusable rule shapes built on mir.Body graph primitives."""
import re

from . import mir
from .mir import render, strip_generics, Site


def bbs(sites):
    return sorted({s.bb for s in sites})


def switch_edges_on(body, pat, labels):
    """Edges (bb, tgt) of switches whose rendered condition matches `pat` and whose labels are all in `labels`."""
    rx = re.compile(pat)
    labels = set(labels)
    return body.guard_edges(lambda c, r, l: l in labels and rx.search(r) is not None)


def switch_edges_on_site(body, site, labels, wrap=None):
    """Edges of switches whose condition *contains the call at `site`* (by block identity), with labels in `labels`.
    wrap: optional regex the rendered condition must match (e.g. r'^discr\\(' )."""
    labels = set(labels)
    out = set()
    for bi in body.live:
        info = body.switch_info(bi)
        if not info:
            continue
        cond, labs = info
        hit = any(s[0] == "call" and s[3] == site.bb for s in mir.walk(cond))
        if not hit:
            continue
        if wrap and not re.search(wrap, render(cond)):
            continue
        for tgt, ls in labs.items():
            if ls and ls <= labels:
                out.add((bi, tgt))
    return out


def exactly_once(ctx, rule, instance, body, start_bbs, end_bbs, marker_bbs, desc, where="",
                 excuse_edges=(), reset_bbs=()):
    """On every path from start to end: >=1 marker (unless the path uses an excuse edge) and never two markers
    without passing a reset block in between."""
    ctx.bodies.add(body.npath)
    marker_bbs = set(marker_bbs)
    starts = []
    for s in start_bbs:
        starts.extend(body.succ[s]) if s in marker_bbs else starts.append(s)
    r = body.reachable(start_bbs, blocked_nodes=marker_bbs - set(start_bbs), blocked_edges=excuse_edges)
    # start blocks themselves are not markers normally
    miss = sorted(set(end_bbs) & r)
    ok_min = not miss and bool(marker_bbs)
    ctx.ob(rule, instance + "/at-least-once", ok_min, where,
           ("every path passes " if ok_min else "a path reaches an exit without ") + desc +
           ("" if ok_min else " (exit blocks %s)" % miss))
    ok_max = True
    bad = None
    for m in marker_bbs:
        rr = body.reachable(body.succ[m], blocked_nodes=set(reset_bbs))
        again = rr & marker_bbs
        if again:
            ok_max = False
            bad = (m, sorted(again))
            break
    ctx.ob(rule, instance + "/at-most-once", ok_max, where,
           ("no path passes twice: " if ok_max else "a path passes twice (bb%s -> %s): " % (bad or (0, 0))) + desc)
    return ok_min and ok_max


def never_between(ctx, rule, instance, body, start_bbs, end_bbs, marker_bbs, desc, where="", blocked_edges=()):
    """No path from start to end passes a marker: i.e. markers unreachable from start (before reaching end)."""
    ctx.bodies.add(body.npath)
    r = body.reachable(start_bbs, blocked_edges=blocked_edges)
    hit = sorted(r & set(marker_bbs))
    ok = not hit
    ctx.ob(rule, instance, ok, where, ("no path reaches " if ok else "a path reaches ") + desc +
           ("" if ok else " at blocks %s" % hit))
    return ok


def precedes(ctx, rule, instance, body, first_bbs, then_bbs, desc, where=""):
    """Every path from entry to a `then` block passes a `first` block (first dominates then as a set)."""
    ctx.bodies.add(body.npath)
    ok = True
    for t in then_bbs:
        if t in first_bbs:
            continue
        if t in body.reachable([0], blocked_nodes=set(first_bbs)):
            ok = False
    ctx.ob(rule, instance, ok and bool(first_bbs) and bool(then_bbs), where,
           ("order holds: " if ok else "order violated: ") + desc)
    return ok


def callee_is(e, pat):
    return e[0] == "call" and re.search(pat, strip_generics(e[1])) is not None


def arg_contains(e, pat):
    """Any sub-expression renders to something matching pat."""
    rx = re.compile(pat)
    return any(rx.search(render(s)) for s in mir.walk(e))


def cmp_guard(body, lhs_pat, rhs_pat, accept):
    """Find switch edges for integer comparisons.  accept: dict op -> label that means 'lhs < rhs strictly holds
    / admission allowed'.  Returns list of (bb, tgt, op, label)."""
    out = []
    lrx, rrx = re.compile(lhs_pat), re.compile(rhs_pat)
    for bi in body.live:
        info = body.switch_info(bi)
        if not info:
            continue
        cond, labs = info
        if cond[0] != "bin":
            continue
        op, a, b = cond[1], render(cond[2]), render(cond[3])
        if lrx.search(a) and rrx.search(b):
            norm = op
        elif lrx.search(b) and rrx.search(a):
            norm = {"Lt": "Gt", "Le": "Ge", "Gt": "Lt", "Ge": "Le", "Eq": "Eq", "Ne": "Ne"}.get(op)
        else:
            continue
        for tgt, ls in labs.items():
            for l in ls:
                out.append((bi, tgt, norm, l))
    return out


def strict_limit_edges(body, count_pat, limit_pat, allow_eq_with_unit_increment=False):
    """Edges on which `count < limit` is known: false-edge of count >= limit, true-edge of count < limit,
    (optionally) false-edge of count == limit.  Also returns the list of *wrong* edges found
    (false-edge of count > limit, true-edge of count <= limit) for diagnostics."""
    good, weak = set(), set()
    for bi, tgt, op, lab in cmp_guard(body, count_pat, limit_pat, None):
        if (op, lab) in (("Ge", "false"), ("Lt", "true")):
            good.add((bi, tgt))
        elif allow_eq_with_unit_increment and (op, lab) in (("Eq", "false"), ("Ne", "true")):
            good.add((bi, tgt))
        elif (op, lab) in (("Gt", "false"), ("Le", "true")):
            weak.add((bi, tgt))
    return good, weak


def const_value(prog, crate, pat):
    c = prog.const(crate, pat)
    return c.get("v")


INF = float("inf")


def count_range(body, starts, ends, markers, blocked_edges=()):
    """(min, max) number of marker blocks on paths from any start to any end block (markers at the end block
    itself count).  Paths are taken in the CFG with DFS back edges removed; if a marker lies on a cycle inside the
    region the max is INF.  Returns None if no end is reachable."""
    markers = set(markers)
    ends = set(ends)
    blocked_edges = set(blocked_edges)
    region = body.reachable(starts, blocked_edges=blocked_edges, stop_nodes=ends)
    # nodes that can reach an end
    can = set()
    changed = True
    can |= (ends & region)
    while changed:
        changed = False
        for b in region:
            if b in can or b in ends:
                continue
            if any(s in can and (b, s) not in blocked_edges for s in body.succ[b]):
                can.add(b)
                changed = True
    if not can & set(starts):
        return None
    # back edges of the *region* (DFS from the starts, end blocks are sinks)
    back = set()
    color = {}
    for st in starts:
        if st not in region or color.get(st):
            continue
        stack = [(st, iter(body.succ[st] if st not in ends else []))]
        color[st] = 1
        while stack:
            x, it = stack[-1]
            adv = False
            for y in it:
                if (x, y) in blocked_edges or y not in region:
                    continue
                c = color.get(y, 0)
                if c == 0:
                    color[y] = 1
                    stack.append((y, iter(body.succ[y] if y not in ends else [])))
                    adv = True
                    break
                elif c == 1:
                    back.add((x, y))
            if not adv:
                color[x] = 2
                stack.pop()
    # cycle check: marker on a cycle within `can`
    inf = False
    for m in markers & can:
        if m in ends:
            continue
        r = body.reachable([s for s in body.succ[m] if (m, s) not in blocked_edges], blocked_edges=blocked_edges, stop_nodes=ends)
        if m in r:
            inf = True
    memo = {}

    def f(b, stack=()):
        if b in memo:
            return memo[b]
        own = 1 if b in markers else 0
        if b in ends:
            memo[b] = (own, own)
            return memo[b]
        lo, hi = INF, -INF
        for s in body.succ[b]:
            if (b, s) in back or (b, s) in blocked_edges or s not in can:
                continue
            r = f(s)
            if r is None:
                continue
            lo = min(lo, r[0])
            hi = max(hi, r[1])
        if lo == INF:
            memo[b] = None
            return None
        memo[b] = (lo + own, hi + own)
        return memo[b]
    import sys
    sys.setrecursionlimit(max(10000, sys.getrecursionlimit()))
    lo, hi = INF, -INF
    for s in starts:
        if s in can:
            r = f(s)
            if r:
                lo = min(lo, r[0])
                hi = max(hi, r[1])
    if lo == INF:
        return None
    if inf:
        hi = INF
    return (lo, hi)


def expect_count(ctx, rule, instance, body, starts, ends, markers, want, desc, where="", blocked_edges=()):
    ctx.bodies.add(body.npath)
    got = count_range(body, starts, ends, markers, blocked_edges)
    ok = got is not None and got == want
    ctx.ob(rule, instance, ok, where, "%s: occurrences on all paths = %s, expected %s" % (desc, got, want))
    return ok


def agg_variants(e, adt_pat):
    """Variant names of all ADT aggregates in expression `e` whose ADT path matches."""
    rx = re.compile(adt_pat)
    return [s[3] for s in mir.walk(e) if s[0] == "agg" and s[1] == "adt" and rx.search(strip_generics(s[2]))]


def calls_with_variant(body, callee_pat, adt_pat, variant=None):
    """Call sites of callee whose argument expressions contain an aggregate ADT::variant."""
    out = []
    for s in body.call_sites(callee_pat):
        e = body.site_expr(s)
        vs = [v for a in e[2] for v in agg_variants(a, adt_pat)]
        if (variant is None and vs) or (variant in vs):
            out.append(s)
    return out


def arm_entry(body, switch_pat, label):
    """Target blocks of switch edges whose rendered cond matches and label == label."""
    rx = re.compile(switch_pat)
    out = []
    for bi in sorted(body.live):
        info = body.switch_info(bi)
        if not info:
            continue
        cond, labs = info
        if not rx.search(render(cond)):
            continue
        for tgt, ls in labs.items():
            if label in ls:
                out.append((bi, tgt))
    return out


# ---------------------------------------------------------------------------- decision tables (K7 light)
import itertools


def local_by_name(body, name):
    ls = [k for k, v in body.names.items() if v == name]
    if len(ls) != 1:
        raise mir.RuleError("local %r in %s: %d hits" % (name, body.npath, len(ls)))
    return ls[0]


def _sym(text, atom_map):
    for pat, name in atom_map:
        if re.search(pat, text):
            return name
    return None


def decision_rows(body, sites, atom_map, value_of, ignore=r"tracing::|__CALLSITE|level_enabled|enabled$"):
    """For each site (assignment / aggregate / call) build a row: (guards, value, site).
    guards: dict atom -> frozenset(labels) from the switches that hold on all paths to the site.
    Conditions that match no atom and match `ignore` are dropped; other unmapped conditions are kept
    under the key '?<text>' so the caller can fail closed."""
    rows = []
    ig = re.compile(ignore)
    for s in sites:
        gs = body.guards_on_all_paths(s.bb)
        g = {}
        for text, labels, _, cond in gs:
            a = _sym(text, atom_map)
            if a is None:
                if ig.search(text):
                    continue
                a = "?" + text[:120]
            if a in g:
                g[a] = g[a] & labels
            else:
                g[a] = frozenset(labels)
        rows.append((g, value_of(s), s))
    return rows


def check_table(ctx, rule, name, rows, domain, ref, where=""):
    """Exhaustively evaluate the extracted rows over the finite domain (dict atom -> list of labels).
    ref(assign) -> expected value, or None for don't-care.  Every cell must be covered by >=1 row and all
    covering rows must give the expected value."""
    unknown = sorted({a for g, _, _ in rows for a in g if a not in domain})
    ok_all = True
    atoms = list(domain)
    ncells = 0
    bad = []
    for combo in itertools.product(*[domain[a] for a in atoms]):
        asg = dict(zip(atoms, combo))
        want = ref(asg)
        if want is None:
            continue
        ncells += 1
        vals = set()
        for g, v, _ in rows:
            if all((a not in asg) or (asg[a] in ls) for a, ls in g.items() if a in domain):
                vv = v(asg) if callable(v) else v
                vals.add(vv)
        if vals != {want}:
            ok_all = False
            if len(bad) < 6:
                bad.append("%s -> got %s want %s" % (asg, sorted(map(str, vals)), want))
    ctx.ob(rule, name + "/no-unmodelled-guards", not unknown, where, "guards outside the table's atoms: %s" % unknown)
    ctx.ob(rule, name + "/table", ok_all and ncells > 0, where,
           "decision table evaluated on %d cells over %s: %s" % (ncells, atoms, "all equal to reference" if ok_all else "; ".join(bad)))
    return ok_all and not unknown


def cell_eval(body, asg, atom_map, result_bbs, start=0, ignore=r"tracing::|__CALLSITE|level_enabled|^enabled$|Interest::"):
    """Abstractly execute `body` from `start` under the assignment `asg` (atom -> label): at a switch whose
    condition maps to an atom of the assignment only the edge carrying that label is followed; at noise switches
    (tracing) and unmodelled switches all edges are followed.  Execution of a path stops at the first block in
    `result_bbs`.  Returns (set of result blocks reached, set of unmodelled condition texts, exits reached w/o result)."""
    ig = re.compile(ignore)
    seen = set()
    stack = [start]
    results, unknown, bare_exits = set(), set(), set()
    while stack:
        b = stack.pop()
        if b in seen:
            continue
        seen.add(b)
        if b in result_bbs:
            results.add(b)
            continue
        info = body.switch_info(b)
        if info:
            cond, labs = info
            text = render(cond)
            a = _sym(text, atom_map)
            if a is not None and a in asg:
                nxt = [t for t, ls in labs.items() if asg[a] in ls]
                # labels not covered explicitly (e.g. integer 'otherwise')
                if not nxt:
                    nxt = [t for t, ls in labs.items() if "otherwise" in ls]
                stack.extend(nxt)
                continue
            if a is None and not ig.search(text):
                unknown.add(text[:140])
            stack.extend(labs.keys())
            continue
        ss = body.succ[b]
        if not ss:
            t = body.blocks[b]["term"]
            if t and t["k"] == "return":
                bare_exits.add(b)
        stack.extend(ss)
    return results, unknown, bare_exits


def check_cells(ctx, rule, name, body, result_sites, value_of, atom_map, domain, ref, where="", start=0, allow_unknown=()):
    """Exhaustive finite-partition evaluation: for every cell of `domain` run cell_eval and compare the set of
    reached result values with ref(cell) (None = don't care)."""
    ctx.bodies.add(body.npath)
    by_bb = {}
    for s in result_sites:
        by_bb.setdefault(s.bb, []).append(s)
    atoms = list(domain)
    bad, unknown_all = [], set()
    ncells = 0
    seen_vals = set()
    for combo in itertools.product(*[domain[a] for a in atoms]):
        asg = dict(zip(atoms, combo))
        want = ref(asg)
        if want is None:
            continue
        ncells += 1
        res, unk, bare = cell_eval(body, asg, atom_map, set(by_bb), start)
        unknown_all |= unk
        vals = set()
        for b in res:
            for s in by_bb[b]:
                v = value_of(s)
                vals.add(v(asg) if callable(v) else v)
        if bare:
            vals.add("<no-result>")
        seen_vals |= vals
        wants = want if isinstance(want, (set, frozenset)) else {want}
        if vals != wants:
            if len(bad) < 6:
                bad.append("%s -> got %s want %s" % (asg, sorted(map(str, vals)), sorted(map(str, wants))))
    unknown_all = {u for u in unknown_all if not any(re.search(p, u) for p in allow_unknown)}
    ctx.ob(rule, name + "/no-unmodelled-guards", not unknown_all, where, "conditions outside the table's atoms: %s" % sorted(unknown_all)[:4])
    ctx.ob(rule, name + "/table", not bad and ncells > 0, where,
           "abstract evaluation over %d cells of %s: %s" % (ncells, atoms, "all equal to reference table (values %s)" % sorted(map(str, seen_vals)) if not bad else "; ".join(bad)))
    return not bad and not unknown_all


def matches_variants(body):
    """For a closure of the form `|p| matches!(p, A | B(..))`: the set of enum variant labels for which it returns
    true (None if the closure has another shape)."""
    trues = set()
    ds = body.defs.get(0, [])
    if not ds:
        return None
    for d in ds:
        if d[0] != "stmt":
            return None
        e = body.rvalue_expr(d[3])
        if e[0] != "const" or e[1] not in (0, 1):
            return None
        if e[1] == 1:
            gs = body.guards_on_all_paths(d[1])
            labs = None
            for text, labels, _, cond in gs:
                if text.startswith("discr("):
                    labs = set(labels) if labs is None else labs & set(labels)
            if labs is None:
                return None
            trues |= labs
    return trues


def closure_of(prog, body, expr):
    """Body of the closure referenced by a ('closure', def, upvars) expression (searching sub-expressions)."""
    for s in mir.walk(expr):
        if s[0] == "closure":
            return prog.closure_body(body, s[1])
    return None


# ---------------------------------------------------------------------------- path-sensitive cell evaluation
def cell_paths(body, asg, atom_map, result_bbs, start=0, ignore=r"tracing::|__CALLSITE|level_enabled|^enabled$|Interest::", limit=4000):
    """Like cell_eval but enumerates the paths of the cell and carries, per path, the site of the last whole
    assignment to every multi-def local (env: local -> ('stmt'|'call', bb, si)).  Yields (result_bb | None, env, unknown)."""
    ig = re.compile(ignore)
    multi = {l for l, ds in body.defs.items() if isinstance(l, int) and len(ds) > 1}
    out = []
    unknown = set()
    stack = [(start, {}, frozenset())]
    n = 0
    while stack:
        b, env, seen = stack.pop()
        n += 1
        if n > limit:
            raise mir.RuleError("cell path budget exceeded in %s" % body.npath)
        if b in seen:
            continue
        seen = seen | {b}
        # record defs in this block
        blk = body.blocks[b]
        env2 = None
        for si, st in enumerate(blk["stmts"]):
            if st["k"] == "assign" and "pr" not in st["p"] and st["p"]["l"] in multi:
                if env2 is None:
                    env2 = dict(env)
                env2[st["p"]["l"]] = ("stmt", b, si)
        t = blk["term"]
        if t and t["k"] == "call" and "pr" not in t["d"] and t["d"]["l"] in multi:
            if env2 is None:
                env2 = dict(env)
            env2[t["d"]["l"]] = ("call", b, None)
        if env2 is not None:
            env = env2
        if b in result_bbs:
            out.append((b, env))
            continue
        info = body.switch_info(b)
        if info:
            cond, labs = info
            text = render(cond)
            a = _sym(text, atom_map)
            if a is not None and a in asg:
                nxt = [tg for tg, ls in labs.items() if asg[a] in ls]
                if not nxt:
                    nxt = [tg for tg, ls in labs.items() if "otherwise" in ls]
            else:
                # a switch on a multi-def bool local: evaluate it from the environment
                v = None
                if cond[0] == "local" and cond[1] in env:
                    v = eval_bool(body, cond, asg, env, atom_map)
                if v is not None:
                    nxt = [tg for tg, ls in labs.items() if v in ls]
                else:
                    if a is None and not ig.search(text):
                        unknown.add(text[:140])
                    nxt = list(labs.keys())
            for tg in nxt:
                stack.append((tg, env, seen))
            continue
        ss = body.succ[b]
        if not ss:
            tt = body.blocks[b]["term"]
            if tt and tt["k"] == "return":
                out.append((None, env))
        for s2 in ss:
            stack.append((s2, env, seen))
    return out, unknown


def eval_bool(body, e, asg, env, atom_map, depth=0):
    """Evaluate a boolean expression under a cell: returns 'true' / 'false' / None (unknown)."""
    if depth > 12:
        return None
    t = e[0]
    if t == "const":
        if e[1] in (0, 1):
            return "true" if e[1] else "false"
        return None
    if t == "un" and e[1] == "Not":
        v = eval_bool(body, e[2], asg, env, atom_map, depth + 1)
        return None if v is None else ("false" if v == "true" else "true")
    if t == "local" and e[1] in env:
        d = env[e[1]]
        if d[0] == "stmt":
            ee = body.rvalue_expr(body.blocks[d[1]]["stmts"][d[2]]["r"])
        else:
            ee = body.call_expr(body.blocks[d[1]]["term"], d[1])
        return eval_bool(body, ee, asg, env, atom_map, depth + 1)
    a = _sym(render(e), atom_map)
    if a is not None and a in asg and asg[a] in ("true", "false"):
        return asg[a]
    return None


def check_cells2(ctx, rule, name, body, result_sites, value_of, atom_map, domain, ref, where="", start=0, allow_unknown=()):
    """check_cells with path-sensitive evaluation: value_of(site, asg, env) -> value."""
    ctx.bodies.add(body.npath)
    by_bb = {}
    for s in result_sites:
        by_bb.setdefault(s.bb, []).append(s)
    atoms = list(domain)
    bad, unknown_all = [], set()
    ncells = 0
    seen_vals = set()
    for combo in itertools.product(*[domain[a] for a in atoms]):
        asg = dict(zip(atoms, combo))
        want = ref(asg)
        if want is None:
            continue
        ncells += 1
        paths, unk = cell_paths(body, asg, atom_map, set(by_bb), start)
        unknown_all |= unk
        vals = set()
        for b, env in paths:
            if b is None:
                vals.add("<no-result>")
                continue
            for s in by_bb[b]:
                vals.add(value_of(s, asg, env))
        seen_vals |= vals
        wants = want if isinstance(want, (set, frozenset)) else {want}
        if vals != wants and len(bad) < 6:
            bad.append("%s -> got %s want %s" % (asg, sorted(map(str, vals)), sorted(map(str, wants))))
        elif vals != wants:
            bad.append("")
    unknown_all = {u for u in unknown_all if not any(re.search(p, u) for p in allow_unknown)}
    ctx.ob(rule, name + "/no-unmodelled-guards", not unknown_all, where, "conditions outside the table's atoms: %s" % sorted(unknown_all)[:4])
    ctx.ob(rule, name + "/table", not bad and ncells > 0, where,
           "abstract evaluation over %d cells of %s: %s" % (ncells, atoms, "all equal to reference table (values %s)" % sorted(map(str, seen_vals)) if not bad else "; ".join(x for x in bad if x)))
    return not bad and not unknown_all


def local_uses(body, l):
    """Number of reads of local `l` (as base of any operand / place) in statements and terminators."""
    n = 0

    def in_place(p):
        nonlocal n
        if p["l"] == l:
            n += 1
        for pr in p.get("pr", ()):
            if pr["k"] == "index" and pr["l"] == l:
                n += 1

    def in_op(o):
        if o and o.get("k") in ("copy", "move"):
            in_place(o["p"])

    def in_rv(r):
        k = r["k"]
        if k in ("use", "cast", "repeat"):
            in_op(r["o"])
        elif k in ("ref", "rawptr", "copyderef", "discr"):
            in_place(r["p"])
        elif k == "bin":
            in_op(r["a"]); in_op(r["b"])
        elif k == "un":
            in_op(r["a"])
        elif k == "agg":
            for o in r["ops"]:
                in_op(o)
    for bi in body.live:
        blk = body.blocks[bi]
        for st in blk["stmts"]:
            if st["k"] == "assign":
                in_rv(st["r"])
                if st["p"].get("pr") and st["p"]["l"] == l:
                    n += 1
        t = blk["term"]
        if not t:
            continue
        if t["k"] in ("call", "tailcall"):
            for a in t["args"]:
                in_op(a)
            if "f" in t:
                in_op(t["f"])
        elif t["k"] == "switch":
            in_op(t["o"])
        elif t["k"] == "assert":
            in_op(t["c"])
        elif t["k"] == "yield":
            in_op(t["v"])
    return n


def value_leaves(body, e, depth=0, seen=None):
    """Leaves of the value of expression e, following multi-def locals through all their definitions and
    looking through BitOr/BitAnd/Not: returns a list of leaf expressions."""
    seen = seen if seen is not None else set()
    if depth > 12:
        return [e]
    t = e[0]
    if t == "bin" and e[1] in ("BitOr", "BitAnd"):
        return value_leaves(body, e[2], depth + 1, seen) + value_leaves(body, e[3], depth + 1, seen)
    if t == "un" and e[1] == "Not":
        return value_leaves(body, e[2], depth + 1, seen)
    if t == "local":
        l = e[1]
        if l in seen:
            return []
        seen.add(l)
        out = []
        ds = body.defs.get(l, [])
        if not ds:
            return [e]
        for d in ds:
            ee = body.rvalue_expr(d[3]) if d[0] == "stmt" else body.call_expr(d[3], d[1])
            out += value_leaves(body, ee, depth + 1, seen)
        return out
    if t == "call" and re.search(r"BitOr(Assign)?>?::bitor(_assign)?$", strip_generics(e[1])):
        out = []
        for a in e[2]:
            out += value_leaves(body, a, depth + 1, seen)
        return out
    return [e]


# ---------------------------------------------------------------------------- FSM extraction (K8)
def fsm_extract(body, state_adt_pat, dispatch_pat=r"^discr\(std::mem::replace\(", classify=None):
    """Extract the transition relation of a `match mem::replace(state, Poison)` dispatch loop.
    Returns dict arm -> {'pending': [(variant, fields, site)] stores that are the last store before a Poll::Pending result,
                        'next': [(variant, fields, site)] last stores before looping back,
                        'exits': set of result kinds ('Pending','Ready(Ok)','Ready(Err)','residual','panic'),
                        'pending_unrestored': bool, 'continue_unstored': bool, 'entry': bb}"""
    rx = re.compile(dispatch_pat)
    disp = None
    for bi in sorted(body.live):
        info = body.switch_info(bi)
        if info and rx.search(render(info[0])):
            disp = (bi, info)
            break
    if disp is None:
        raise mir.RuleError("state dispatch not found in %s" % body.npath)
    dbb, (cond, labs) = disp
    # loop head: the block of the mem::replace call feeding the dispatch
    head = None
    for s in mir.walk(cond):
        if s[0] == "call":
            head = s[3]
            break
    # state stores
    arx = re.compile(state_adt_pat)
    stores = {}
    for bi in body.live:
        for si, st in enumerate(body.blocks[bi]["stmts"]):
            if st["k"] == "assign" and st["p"].get("pr"):
                prs = st["p"]["pr"]
                if not (prs[-1]["k"] == "deref" or any(pr["k"] == "field" and pr["n"] == "state" for pr in prs)):
                    continue
                e = body.rvalue_expr(st["r"])
                if e[0] == "agg" and e[1] == "adt" and arx.search(strip_generics(e[2])):
                    stores.setdefault(bi, []).append((e[3], dict((f, render(x)) for f, x in e[4]), Site(body, bi, si)))
    # result sites: assignments to _0
    results = {}
    for d in body.defs.get(0, []):
        bi = d[1]
        if d[0] == "stmt":
            e = body.rvalue_expr(d[3])
            r = render(e)
            if classify is not None:
                k = classify(r)
            elif r.startswith("std::task::Poll::Pending"):
                k = "Pending"
            elif r.startswith("std::task::Poll::Ready{0: std::result::Result::Ok") or r.startswith("std::task::Poll::Ready{0: std::option::Option::Some{0: std::result::Result::Ok"):
                k = "Ready(Ok)"
            elif r.startswith("std::task::Poll::Ready{0: std::result::Result::Err") or r.startswith("std::task::Poll::Ready{0: std::option::Option::Some{0: std::result::Result::Err"):
                k = "Ready(Err)"
            elif r.startswith("std::task::Poll::Ready"):
                k = "Ready"
            else:
                k = "other"
        else:
            k = "residual" if "from_residual" in body.call_name(d[3]) else "call"
        results[bi] = k
    out = {}
    for tgt, ls in labs.items():
        for arm in ls:
            rec = {"pending": [], "next": [], "exits": set(), "pending_unrestored": False, "continue_unstored": False, "entry": tgt}
            # walk paths: state = last store seen (None at entry); DFS over (block, last_store_block)
            seen = set()
            stack = [(tgt, None)]
            while stack:
                b, last = stack.pop()
                if (b, last) in seen:
                    continue
                seen.add((b, last))
                if b in stores:
                    last = b
                if b in results:
                    k = results[b]
                    rec["exits"].add(k)
                    rec.setdefault("on", {}).setdefault(k, [])
                    for v in (stores[last] if last is not None else [(None, {}, None)]):
                        if v not in rec["on"][k]:
                            rec["on"][k].append(v)
                    if k == "Pending":
                        if last is None:
                            rec["pending_unrestored"] = True
                        else:
                            for v in stores[last]:
                                if v not in rec["pending"]:
                                    rec["pending"].append(v)
                    continue
                t = body.blocks[b]["term"]
                if t and t["k"] == "call" and "t" not in t:
                    rec["exits"].add("panic")
                    continue
                for s in body.succ[b]:
                    if s == head:
                        if last is None:
                            rec["continue_unstored"] = True
                        else:
                            for v in stores[last]:
                                if v not in rec["next"]:
                                    rec["next"].append(v)
                        continue
                    stack.append((s, last))
            out[arm] = rec
    return out


# ---------------------------------------------------------------------------- panic-capable site inventory (K10)
PANIC_CALLEES = [
    (r"(^|::)(Option|Result)::(unwrap|expect|unwrap_err|expect_err)$", "unwrap"),
    (r"ops::Index(Mut)?>::index(_mut)?$|ops::Index(Mut)?::index(_mut)?$", "index"),
    (r"panicking::(panic|panic_fmt|panic_display|unreachable_display|assert_failed)|rt::panic_fmt|panic_explicit|begin_panic", "panic"),
    (r"(Bytes|BytesMut)::(split_to|split_off|advance|truncate_unchecked)$|Buf>::advance$|Buf::advance$|Buf>::copy_to_slice$|Buf::get_u\d+", "buf"),
    (r"slice::<impl \[T\]>::(copy_from_slice|split_at|split_at_mut|swap|clone_from_slice)$|::copy_from_slice$|::split_at$", "slice"),
    (r"Vec::(remove|insert|swap_remove|drain|split_off)$|VecDeque::(remove|insert)$", "vecidx"),
    (r"str::<impl str>::(split_at)$|String::(remove|insert|truncate|split_off)$", "str"),
    (r"RefCell::(borrow|borrow_mut)$", "refcell"),
    (r"Duration::(from_secs_f|mul_f|div_f)|Instant::(sub|add)$|Add<.*Duration>>::add$|Sub<.*Duration>>::sub$|time::Instant as std::ops::(Add|Sub)", "time"),
]


def panic_sites(body, include_overflow=False):
    """Panic-capable sites of one body: list of (kind, detail, Site)."""
    out = []
    for bi in sorted(body.live):
        t = body.blocks[bi]["term"]
        if not t:
            continue
        if t["k"] == "assert":
            m = t["msg"]
            if m.startswith("overflow") and not include_overflow:
                continue
            if m.startswith("resumed") or m in ("misaligned", "nullptr"):
                continue
            out.append(("assert:" + m.split(":")[0], m, Site(body, bi)))
        elif t["k"] == "call":
            if t.get("x", "").startswith("m:") and t["x"].split(":")[1] in ("debug_assert", "debug_assert_eq", "debug_assert_ne"):
                continue
            if any(m in ("debug_assert", "debug_assert_eq", "debug_assert_ne") for m in t.get("xs", "").split(">")):
                continue        # compiled out in release builds; a debug-only self-check, not a decode-path panic
            name = strip_generics(body.call_name(t))
            decl = strip_generics(t.get("fn", name))
            for pat, kind in PANIC_CALLEES:
                if re.search(pat, name) or re.search(pat, decl):
                    # unwrap on infallible expect messages is still counted; macro-generated formatting is not
                    if kind == "panic" and t.get("x", "").startswith("m:") and "debug_assert" in t.get("x", ""):
                        break
                    out.append((kind, name.split("::")[-1] if kind != "index" else "index", Site(body, bi)))
                    break
    return out


def panic_inventory(prog, crate, entry_bodies, depth=2):
    """Inventory over the entry bodies, their closures/coroutines and workspace-local callees up to `depth`."""
    seen = {}
    work = [(b, 0) for b in entry_bodies]
    by_path = {b.npath: b for b in prog.bodies(crate)}
    while work:
        b, d = work.pop()
        if b.npath in seen:
            continue
        seen[b.npath] = b
        for ch in prog.children(b):
            work.append((ch, d))
        if d < depth:
            for s in b.call_sites():
                n = strip_generics(b.call_name(s.term))
                if n in by_path:
                    work.append((by_path[n], d + 1))
    inv = []
    for b in seen.values():
        for k, det, s in panic_sites(b):
            inv.append((b, k, det, s))
    return inv, sorted(seen)


def check_inventory(ctx, rule, name, inv, ceilings, bodies):
    """Counts per kind must not exceed the ceilings confirmed by reading (dict kind -> (max, reason))."""
    counts = {}
    for b, k, det, s in inv:
        counts.setdefault(k, []).append((b, det, s))
    for b in bodies:
        ctx.bodies.add(b)
    for k, lst in sorted(counts.items()):
        mx, why = ceilings.get(k, (0, "no panic-capable site of this kind was present when the rule was written"))
        ok = len(lst) <= mx
        where = lst[0][2].loc() if lst else ""
        ctx.ob(rule, "%s: panic-capable `%s` sites <= %d" % (name, k, mx), ok, where,
               "%d site(s) [%s]; allowed %d because: %s" % (len(lst), ", ".join("%s@%s" % (d, s.loc().split("/")[-1]) for _, d, s in lst[:8]), mx, why))
    ctx.ob(rule, "%s: inventory computed" % name, True, msg="%d panic-capable sites in %d bodies: %s" %
           (len(inv), len(bodies), {k: len(v) for k, v in counts.items()}), nontrivial=False)
    return counts


def limit_guard(ctx, rule, instance, site, count_pat, limit_pat, desc, unit_increment=False, inclusive=False):
    """Growth site must be dominated by an edge implying count < limit (strict) — or count <= limit when
    `inclusive` (the documented bound allows `limit` itself to be exceeded by one, e.g. check-after-push idioms).
    Accepted edges: false of `count >= limit`, true of `count < limit`, (unit_increment) false of `count == limit` /
    true of `count != limit`; with inclusive also false of `count > limit`, true of `count <= limit`."""
    body = site.body
    ctx.bodies.add(body.npath)
    good, weak = strict_limit_edges(body, count_pat, limit_pat, unit_increment)
    edges = set(good) | (set(weak) if inclusive else set())
    ok = bool(edges) and body.must_pass_edges(site.bb, edges)
    msg = ("bounded: " if ok else "not bounded: ") + desc
    if not ok and weak and not inclusive and body.must_pass_edges(site.bb, set(good) | set(weak)):
        msg += " — only a non-strict guard (`count > limit` / `count <= limit`) protects this site, which admits limit+1"
    ctx.ob(rule, instance, ok, site.loc(), msg)
    return ok


def at_limit_edges(body, count_pat, limit_pat):
    """Edges on which count >= limit is known (rejection side)."""
    out = set()
    for bi, tgt, op, lab in cmp_guard(body, count_pat, limit_pat, None):
        if (op, lab) in (("Ge", "true"), ("Lt", "false"), ("Eq", "true"), ("Ne", "false")):
            out.add((bi, tgt))
    return out


def field_mut_calls(body, field):
    """Call sites that receive a `&mut` borrow of a place containing field `field` (directly as argument)."""
    out = []
    for bi in sorted(body.live):
        t = body.blocks[bi]["term"]
        if not t or t["k"] != "call":
            continue
        for a in t["args"]:
            if a.get("k") not in ("move", "copy") or "pr" in a["p"]:
                continue
            ds = body.defs.get(a["p"]["l"], [])
            if len(ds) != 1 or ds[0][0] != "stmt":
                continue
            r = ds[0][3]
            if r["k"] == "ref" and r.get("m") == "mut" and any(pr["k"] == "field" and pr["n"] == field for pr in r["p"].get("pr", ())):
                out.append(Site(body, bi))
                break
    return out
