"""Finite-partition abstract evaluation (K7) of address-classification functions.

An input (IPv4: 4 octets, IPv6: 8 segments) is abstracted by a *cell*: one set of values per component
(bitset stored in a Python int).  A body is evaluated on a whole cell at once; every comparison is decided for all
members of the cell simultaneously.  When a comparison is not uniform on the cell, the cell is split on that
component into the part that makes it true and the part that makes it false, and both parts are evaluated again.
The result is a partition of the *entire* input space into cells, each with one definite return value — a statement
about every address, not about samples.  Nothing of the analysed program is executed.
"""
import re

from . import mir
from .mir import render, strip_generics


class Split(Exception):
    def __init__(self, comp, true_set):
        self.comp = comp
        self.true_set = true_set


class Unsupported(Exception):
    pass


_pred_cache = {}


def pred_bitset(width, mask, op, c):
    """bitset of all v in [0, 2^width) with op(v & mask, c)."""
    key = (width, mask, op, c)
    if key in _pred_cache:
        return _pred_cache[key]
    n = 1 << width
    full = (1 << n) - 1
    if mask is None:
        if op == "Eq":
            r = (1 << c) if 0 <= c < n else 0
        elif op == "Ne":
            r = full & ~((1 << c) if 0 <= c < n else 0)
        elif op == "Lt":
            r = (1 << max(0, min(c, n))) - 1
        elif op == "Le":
            r = (1 << max(0, min(c + 1, n))) - 1
        elif op == "Ge":
            r = full & ~((1 << max(0, min(c, n))) - 1)
        elif op == "Gt":
            r = full & ~((1 << max(0, min(c + 1, n))) - 1)
        else:
            raise Unsupported("op " + op)
    else:
        import operator
        f = {"Eq": operator.eq, "Ne": operator.ne, "Lt": operator.lt, "Le": operator.le, "Ge": operator.ge, "Gt": operator.gt}[op]
        r = 0
        for v in range(n):
            if f(v & mask, c):
                r |= 1 << v
    _pred_cache[key] = r
    return r


# abstract values ------------------------------------------------------------------------------------------------
# ('const', v) | ('int', comp, mask|None) | ('whole',) | ('bool', dnf)  where dnf = list of conjunctions, each a list of
# (comp, trueset) literals; [] = false, [[]] = true
TRUE = ("bool", [[]])
FALSE = ("bool", [])


def b_not_literal(width, comp, ts):
    full = (1 << (1 << width)) - 1
    return (comp, full & ~ts)


class Evaluator:
    def __init__(self, prog, crate, width, ncomp, comp_call_pat, atoms, whole_pat=None):
        self.prog = prog
        self.crate = crate
        self.width = width
        self.ncomp = ncomp
        self.comp_call = re.compile(comp_call_pat)      # call whose result is the component array
        self.whole_pat = re.compile(whole_pat) if whole_pat else None
        self.atoms = atoms                               # callee regex -> dnf builder
        self.full = (1 << (1 << width)) - 1
        self.bodies = {b.npath: b for b in prog.bodies(crate)}
        self.visited_bodies = set()
        self.nsplits = 0

    # ---- boolean evaluation on a cell
    def decide(self, dnf, cell):
        """Return True/False or raise Split."""
        pending = None
        for conj in dnf:
            st = True
            for comp, ts in conj:
                inter = cell[comp] & ts
                if inter == 0:
                    st = False
                    break
                if inter != cell[comp]:
                    if st is True:
                        st = (comp, ts)
            if st is True:
                return True
            if st is not False and pending is None:
                pending = st
        if pending is None:
            return False
        raise Split(pending[0], pending[1])

    def negate(self, dnf, cell):
        v = self.decide(dnf, cell)
        return [] if v else [[]]

    # ---- expression evaluation
    def aeval(self, body, e, cell, env, depth=0):
        if depth > 40:
            raise Unsupported("depth")
        t = e[0]
        if t == "const":
            if e[1] is None:
                raise Unsupported("const " + str(e[2]))
            return ("const", e[1])
        if t == "namedconst":
            if e[2] is None:
                raise Unsupported("namedconst " + e[1])
            return ("const", e[2])
        if t == "cast":
            return self.aeval(body, e[1], cell, env, depth + 1)
        if t == "local":
            if e[1] in env:
                d = env[e[1]]
                ee = body.rvalue_expr(body.blocks[d[1]]["stmts"][d[2]]["r"]) if d[0] == "stmt" else body.call_expr(body.blocks[d[1]]["term"], d[1])
                return self.aeval(body, ee, cell, env, depth + 1)
            raise Unsupported("local " + render(e))
        if t == "arg":
            return ("addr",)
        if t in ("index", "cindex"):
            base = self.aeval(body, e[1], cell, env, depth + 1)
            if base[0] != "comps":
                raise Unsupported("index of " + render(e[1]))
            if t == "cindex":
                i = e[2]
            else:
                iv = self.aeval(body, e[2], cell, env, depth + 1)
                if iv[0] != "const":
                    raise Unsupported("non-const index")
                i = iv[1]
            return ("int", i, None)
        if t == "call":
            name = strip_generics(e[1])
            if self.comp_call.search(name):
                return ("comps",)
            if self.whole_pat and self.whole_pat.search(name):
                return ("whole",)
            if re.search(r"octets$", name):
                return ("bytes",)
            for pat, fn in self.atoms:
                if re.search(pat, name):
                    return ("bool", fn(self))
            if name in self.bodies:
                r = self.run_body(self.bodies[name], cell)
                return TRUE if r else FALSE
            raise Unsupported("call " + name)
        if t == "un" and e[1] == "Not":
            v = self.aeval(body, e[2], cell, env, depth + 1)
            if v[0] == "const":
                return ("const", 0 if v[1] else 1)
            if v[0] == "bool":
                return ("bool", self.negate(v[1], cell))
            raise Unsupported("Not of " + v[0])
        if t == "bin":
            op = e[1]
            a = self.aeval(body, e[2], cell, env, depth + 1)
            b = self.aeval(body, e[3], cell, env, depth + 1)
            if op == "BitAnd" and a[0] == "int" and b[0] == "const":
                m = b[1] if a[2] is None else (a[2] & b[1])
                return ("int", a[1], m)
            if op in ("Eq", "Ne", "Lt", "Le", "Gt", "Ge"):
                if a[0] == "const" and b[0] == "const":
                    import operator
                    f = {"Eq": operator.eq, "Ne": operator.ne, "Lt": operator.lt, "Le": operator.le, "Ge": operator.ge, "Gt": operator.gt}[op]
                    return TRUE if f(a[1], b[1]) else FALSE
                if a[0] == "const" and b[0] == "int":
                    a, b = b, a
                    op = {"Lt": "Gt", "Le": "Ge", "Gt": "Lt", "Ge": "Le", "Eq": "Eq", "Ne": "Ne"}[op]
                if a[0] == "int" and b[0] == "const":
                    return ("bool", [[(a[1], pred_bitset(self.width, a[2], op, b[1]))]])
                if a[0] == "whole" and b[0] == "const" and op in ("Eq", "Ne"):
                    conj = []
                    for i in range(self.ncomp):
                        c = (b[1] >> (self.width * (self.ncomp - 1 - i))) & ((1 << self.width) - 1)
                        conj.append((i, 1 << c))
                    if op == "Eq":
                        return ("bool", [conj])
                    return ("bool", self.negate([conj], cell))
                if a[0] == "bool" and b[0] == "bool" and op in ("Eq", "Ne"):
                    x, y = self.decide(a[1], cell), self.decide(b[1], cell)
                    return TRUE if ((x == y) == (op == "Eq")) else FALSE
            if op in ("BitAnd", "BitOr") and a[0] == "bool" and b[0] == "bool":
                x, y = self.decide(a[1], cell), self.decide(b[1], cell)
                return TRUE if ((x and y) if op == "BitAnd" else (x or y)) else FALSE
            raise Unsupported("bin %s on %s,%s in %s" % (op, a[0], b[0], render(e)[:80]))
        raise Unsupported(t + " " + render(e)[:80])

    # ---- CFG walk
    def run_body(self, body, cell):
        """Return the boolean result of `body` for every address in `cell`, or raise Split."""
        self.visited_bodies.add(body.npath)
        multi = {l for l, ds in body.defs.items() if isinstance(l, int) and len(ds) > 1}
        env = {}
        b = 0
        steps = 0
        while True:
            steps += 1
            if steps > 5000:
                raise Unsupported("loop in " + body.npath)
            blk = body.blocks[b]
            for si, st in enumerate(blk["stmts"]):
                if st["k"] == "assign" and "pr" not in st["p"] and st["p"]["l"] in multi:
                    env[st["p"]["l"]] = ("stmt", b, si)
            t = blk["term"]
            k = t["k"]
            if k == "call" and "pr" not in t["d"] and t["d"]["l"] in multi:
                env[t["d"]["l"]] = ("call", b, None)
            if k == "return":
                v = self.aeval(body, body.local_expr(0) if 0 not in env else ("local", 0, None), cell, env)
                if v[0] == "const":
                    return bool(v[1])
                if v[0] == "bool":
                    return self.decide(v[1], cell)
                raise Unsupported("return " + v[0])
            if k == "switch":
                cond = body.operand_expr(t["o"])
                v = self.aeval(body, cond, cell, env)
                tgt = None
                if v[0] == "const":
                    for val, bb in t["targets"]:
                        if int(val) == int(v[1]):
                            tgt = bb
                    if tgt is None:
                        tgt = t["otherwise"]
                elif v[0] == "bool":
                    r = self.decide(v[1], cell)
                    tgt = None
                    for val, bb in t["targets"]:
                        if int(val) == (1 if r else 0):
                            tgt = bb
                    if tgt is None:
                        tgt = t["otherwise"]
                elif v[0] == "int":
                    comp, mask = v[1], v[2]
                    rest = cell[comp]
                    for val, bb in t["targets"]:
                        ts = pred_bitset(self.width, mask, "Eq", int(val))
                        inter = cell[comp] & ts
                        if inter == cell[comp]:
                            tgt = bb
                            break
                        if inter:
                            raise Split(comp, ts)
                        rest &= ~ts
                    if tgt is None:
                        tgt = t["otherwise"]
                else:
                    raise Unsupported("switch on " + v[0])
                b = tgt
                continue
            if k in ("goto", "falseedge", "falseunwind", "drop", "assert"):
                b = t["t"]
                continue
            if k == "call":
                if "t" not in t:
                    raise Unsupported("diverging call")
                b = t["t"]
                continue
            raise Unsupported("terminator " + k)

    def partition(self, body, start_cell=None):
        """Evaluate `body` on the whole space; returns list of (cell, bool)."""
        cell0 = tuple(self.full for _ in range(self.ncomp)) if start_cell is None else start_cell
        out = []
        work = [cell0]
        while work:
            cell = work.pop()
            try:
                r = self.run_body(body, cell)
                out.append((cell, r))
            except Split as s:
                self.nsplits += 1
                a = list(cell)
                b2 = list(cell)
                a[s.comp] = cell[s.comp] & s.true_set
                b2[s.comp] = cell[s.comp] & ~s.true_set
                if a[s.comp] == 0 or b2[s.comp] == 0:
                    raise Unsupported("degenerate split")
                work.append(tuple(a))
                work.append(tuple(b2))
            if len(out) + len(work) > 200000:
                raise Unsupported("cell budget exceeded")
        return out


# ---- products / prefixes ------------------------------------------------------------------------------------------
def rng(lo, hi):
    return ((1 << (hi + 1)) - 1) & ~((1 << lo) - 1)


def prefix_cell(width, ncomp, value, plen):
    """Cell (product of per-component ranges) of the prefix value/plen; value is the full address as int."""
    total = width * ncomp
    cell = []
    for i in range(ncomp):
        hi_bit = total - i * width
        comp_val = (value >> (hi_bit - width)) & ((1 << width) - 1)
        fixed = max(0, min(width, plen - i * width))
        if fixed == width:
            cell.append(1 << comp_val)
        elif fixed == 0:
            cell.append((1 << (1 << width)) - 1)
        else:
            free = width - fixed
            lo = (comp_val >> free) << free
            cell.append(rng(lo, lo + (1 << free) - 1))
    return tuple(cell)


def intersect(a, b):
    c = tuple(x & y for x, y in zip(a, b))
    return None if any(x == 0 for x in c) else c


def subtract(a, b):
    """a minus b as a list of disjoint products."""
    i = intersect(a, b)
    if i is None:
        return [a]
    out = []
    cur = list(a)
    for k in range(len(a)):
        outside = cur[k] & ~b[k]
        if outside:
            piece = list(cur)
            piece[k] = outside
            out.append(tuple(piece))
        cur[k] = cur[k] & b[k]
    return out


def popcount(x):
    return bin(x).count("1")


def size(cell):
    n = 1
    for c in cell:
        n *= popcount(c)
    return n


def describe(cell, width):
    parts = []
    for c in cell:
        if c == (1 << (1 << width)) - 1:
            parts.append("*")
            continue
        # ranges
        rs = []
        v = 0
        n = 1 << width
        while v < n:
            if (c >> v) & 1:
                lo = v
                while v + 1 < n and (c >> (v + 1)) & 1:
                    v += 1
                rs.append("%d" % lo if lo == v else "%d-%d" % (lo, v))
            v += 1
            if len(rs) > 4:
                rs.append("…")
                break
        parts.append(",".join(rs))
    return ("." if width == 8 else ":").join(parts)
