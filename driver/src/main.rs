// mirfacts: rustc driver that dumps resolved MIR facts of a crate as JSON.
// Used as RUSTC_WORKSPACE_WRAPPER under `cargo +nightly check`.
// Output: $MIRFACTS_OUT/<crate_name>-<metadata hash>.json (one write per process).
#![feature(rustc_private)]
#![allow(clippy::all)]

extern crate rustc_abi;
extern crate rustc_data_structures;
extern crate rustc_driver;
extern crate rustc_hir;
extern crate rustc_index;
extern crate rustc_interface;
extern crate rustc_middle;
extern crate rustc_span;

use rustc_driver::Compilation;
use rustc_hir::def::DefKind;
use rustc_hir::def_id::{DefId, LocalDefId};
use rustc_middle::mir::{
    self, AggregateKind, BasicBlock, Body, Const, ConstValue, Operand, Place, ProjectionElem,
    Rvalue, StatementKind, TerminatorKind,
};
use rustc_middle::ty::{self, Instance, Ty, TyCtxt, TypingEnv};
use rustc_span::hygiene::ExpnKind;
use rustc_span::Span;
use std::fmt::Write as _;

// ---------------------------------------------------------------- JSON helpers
fn esc(s: &str, out: &mut String) {
    out.push('"');
    for c in s.chars() {
        match c {
            '"' => out.push_str("\\\""),
            '\\' => out.push_str("\\\\"),
            '\n' => out.push_str("\\n"),
            '\r' => out.push_str("\\r"),
            '\t' => out.push_str("\\t"),
            c if (c as u32) < 0x20 => {
                let _ = write!(out, "\\u{:04x}", c as u32);
            }
            c => out.push(c),
        }
    }
    out.push('"');
}

struct J {
    s: String,
    first: Vec<bool>,
}
impl J {
    fn new() -> Self {
        J { s: String::new(), first: vec![] }
    }
    fn sep(&mut self) {
        if let Some(f) = self.first.last_mut() {
            if *f {
                *f = false;
            } else {
                self.s.push(',');
            }
        }
    }
    fn obj(&mut self) {
        self.sep();
        self.s.push('{');
        self.first.push(true);
    }
    fn end_obj(&mut self) {
        self.s.push('}');
        self.first.pop();
    }
    fn arr(&mut self) {
        self.sep();
        self.s.push('[');
        self.first.push(true);
    }
    fn end_arr(&mut self) {
        self.s.push(']');
        self.first.pop();
    }
    fn key(&mut self, k: &str) {
        self.sep();
        esc(k, &mut self.s);
        self.s.push(':');
        // next value must not emit a separator
        if let Some(f) = self.first.last_mut() {
            *f = true;
        }
    }
    fn str(&mut self, v: &str) {
        self.sep();
        esc(v, &mut self.s);
    }
    fn int(&mut self, v: i128) {
        self.sep();
        let _ = write!(self.s, "{}", v);
    }
    fn uint(&mut self, v: u128) {
        self.sep();
        // JSON numbers above 2^63 are kept as strings to stay portable
        if v > (i64::MAX as u128) {
            let _ = write!(self.s, "\"{}\"", v);
        } else {
            let _ = write!(self.s, "{}", v);
        }
    }
    fn bool(&mut self, v: bool) {
        self.sep();
        self.s.push_str(if v { "true" } else { "false" });
    }
    fn null(&mut self) {
        self.sep();
        self.s.push_str("null");
    }
    fn kstr(&mut self, k: &str, v: &str) {
        self.key(k);
        self.str(v);
    }
    fn kint(&mut self, k: &str, v: i128) {
        self.key(k);
        self.int(v);
    }
    fn kbool(&mut self, k: &str, v: bool) {
        self.key(k);
        self.bool(v);
    }
}

// ---------------------------------------------------------------- dumper
struct D<'tcx> {
    tcx: TyCtxt<'tcx>,
    j: J,
}

fn vis_str<'tcx>(tcx: TyCtxt<'tcx>, def: DefId) -> String {
    match tcx.def_kind(def) {
        DefKind::Closure | DefKind::AnonConst | DefKind::InlineConst | DefKind::SyntheticCoroutineBody => {
            return "n/a".into();
        }
        _ => {}
    }
    match tcx.visibility(def) {
        ty::Visibility::Public => "pub".into(),
        ty::Visibility::Restricted(m) => {
            if m.is_crate_root() {
                "crate".into()
            } else {
                format!("in:{}", tcx.def_path_str(m))
            }
        }
    }
}

impl<'tcx> D<'tcx> {
    fn path(&self, def: DefId) -> String {
        let krate = self.tcx.crate_name(def.krate);
        let p = self.tcx.def_path_str(def);
        if def.is_local() {
            format!("{}::{}", krate, p)
        } else {
            p
        }
    }

    fn span_info(&mut self, sp: Span) {
        let sm = self.tcx.sess.source_map();
        let cs = sp.source_callsite();
        let lo = sm.lookup_char_pos(cs.lo());
        self.j.kint("l", lo.line as i128);
        if sp.from_expansion() {
            let ed = sp.ctxt().outer_expn_data();
            let x = match ed.kind {
                ExpnKind::Macro(_, name) => format!("m:{}", name),
                ExpnKind::Desugaring(k) => format!("d:{:?}", k),
                ExpnKind::AstPass(k) => format!("a:{:?}", k),
                ExpnKind::Root => "root".into(),
            };
            self.j.kstr("x", &x);
            // full macro backtrace (innermost first), so that e.g. `debug_assert!` around a panic is recognisable
            let chain: Vec<String> = sp
                .macro_backtrace()
                .filter_map(|e| match e.kind {
                    ExpnKind::Macro(_, name) => Some(name.to_string()),
                    _ => None,
                })
                .collect();
            if chain.len() > 1 {
                self.j.kstr("xs", &chain.join(">"));
            }
        }
    }

    fn place_ty_field_name(&self, pty: mir::PlaceTy<'tcx>, idx: usize) -> (String, String) {
        let ty = pty.ty;
        match ty.kind() {
            ty::Adt(adt, _) => {
                let v = pty.variant_index.unwrap_or(rustc_abi::FIRST_VARIANT);
                if v.as_usize() < adt.variants().len() {
                    let var = adt.variant(v);
                    let fname = var
                        .fields
                        .iter()
                        .nth(idx)
                        .map(|f| f.name.to_string())
                        .unwrap_or_else(|| idx.to_string());
                    let owner = if adt.is_enum() {
                        format!("{}::{}", self.path(adt.did()), var.name)
                    } else {
                        self.path(adt.did())
                    };
                    (fname, owner)
                } else {
                    (idx.to_string(), self.path(adt.did()))
                }
            }
            ty::Closure(def, _) | ty::Coroutine(def, _) | ty::CoroutineClosure(def, _) => {
                let mut name = format!("upvar#{}", idx);
                if let Some(ldef) = def.as_local() {
                    let caps = self.tcx.closure_captures(ldef);
                    if let Some(c) = caps.get(idx) {
                        name = format!("upvar:{}", c.to_string(self.tcx));
                    }
                }
                (name, self.path(*def))
            }
            ty::Tuple(_) => (idx.to_string(), "tuple".into()),
            _ => (idx.to_string(), "?".into()),
        }
    }

    fn place(&mut self, body: &Body<'tcx>, p: &Place<'tcx>) {
        self.j.obj();
        self.j.kint("l", p.local.as_usize() as i128);
        if !p.projection.is_empty() {
            self.j.key("pr");
            self.j.arr();
            let mut pty = mir::PlaceTy::from_ty(body.local_decls[p.local].ty);
            for elem in p.projection.iter() {
                self.j.obj();
                match elem {
                    ProjectionElem::Deref => self.j.kstr("k", "deref"),
                    ProjectionElem::Field(f, _) => {
                        let (n, o) = self.place_ty_field_name(pty, f.as_usize());
                        self.j.kstr("k", "field");
                        self.j.kint("i", f.as_usize() as i128);
                        self.j.kstr("n", &n);
                        self.j.kstr("o", &o);
                    }
                    ProjectionElem::Index(l) => {
                        self.j.kstr("k", "index");
                        self.j.kint("l", l.as_usize() as i128);
                    }
                    ProjectionElem::ConstantIndex { offset, min_length, from_end } => {
                        self.j.kstr("k", "cindex");
                        self.j.kint("o", offset as i128);
                        self.j.kint("min", min_length as i128);
                        self.j.kbool("fe", from_end);
                    }
                    ProjectionElem::Subslice { from, to, from_end } => {
                        self.j.kstr("k", "subslice");
                        self.j.kint("from", from as i128);
                        self.j.kint("to", to as i128);
                        self.j.kbool("fe", from_end);
                    }
                    ProjectionElem::Downcast(name, v) => {
                        self.j.kstr("k", "downcast");
                        let n = match name {
                            Some(s) => s.to_string(),
                            None => match pty.ty.kind() {
                                ty::Adt(adt, _) if v.as_usize() < adt.variants().len() => {
                                    adt.variant(v).name.to_string()
                                }
                                _ => format!("{}", v.as_usize()),
                            },
                        };
                        self.j.kstr("v", &n);
                        self.j.kint("vi", v.as_usize() as i128);
                    }
                    ProjectionElem::OpaqueCast(_) => self.j.kstr("k", "opaque"),
                    ProjectionElem::UnwrapUnsafeBinder(_) => self.j.kstr("k", "unwrapbinder"),
                }
                self.j.end_obj();
                pty = pty.projection_ty(self.tcx, elem);
            }
            self.j.end_arr();
        }
        self.j.end_obj();
    }

    fn constant(&mut self, owner: LocalDefId, c: &mir::ConstOperand<'tcx>) {
        let tcx = self.tcx;
        self.j.obj();
        self.j.kstr("k", "const");
        let ty = c.const_.ty();
        self.j.kstr("ty", &format!("{}", ty));
        match ty.kind() {
            ty::FnDef(def, args) => {
                self.j.kstr("fn", &self.path(*def));
                if !args.is_empty() {
                    self.j.kstr("ga", &format!("{:?}", args));
                }
            }
            _ => {
                let tenv = TypingEnv::post_analysis(tcx, owner);
                let mut done = false;
                if let Const::Unevaluated(uv, _) = c.const_ {
                    if uv.promoted.is_none() {
                        self.j.kstr("def", &self.path(uv.def));
                    } else {
                        self.j.kbool("promoted", true);
                        self.j.kint("pi", uv.promoted.unwrap().as_usize() as i128);
                    }
                }
                let is_scalar_ty = ty.is_integral() || ty.is_bool() || ty.is_char();
                if is_scalar_ty {
                    if let Some(si) = c.const_.try_eval_scalar_int(tcx, tenv) {
                        let size = si.size();
                        let bits = si.to_bits(size);
                        self.j.key("v");
                        if ty.is_signed() {
                            let v = size.sign_extend(bits) as i128;
                            self.j.int(v);
                        } else {
                            self.j.uint(bits);
                        }
                        done = true;
                    }
                }
                if let Const::Val(ConstValue::Scalar(mir::interpret::Scalar::Ptr(ptr, _)), _) = c.const_ {
                    let aid = ptr.provenance.alloc_id();
                    if let Some(mir::interpret::GlobalAlloc::Static(sdef)) = tcx.try_get_global_alloc(aid) {
                        self.j.kstr("static", &self.path(sdef));
                    }
                }
                if !done {
                    // string / byte-string literals
                    if let Const::Val(cv, _) = c.const_ {
                        match cv {
                            ConstValue::Slice { .. } => {
                                if let Some(bytes) = cv.try_get_slice_bytes_for_diagnostics(tcx) {
                                    match std::str::from_utf8(bytes) {
                                        Ok(s) => self.j.kstr("s", s),
                                        Err(_) => self.j.kstr("s", &format!("{:?}", bytes)),
                                    }
                                }
                            }
                            _ => {}
                        }
                    }
                }
                let mut txt = format!("{}", c);
                if txt.len() > 200 {
                    txt.truncate(200);
                }
                self.j.kstr("t", &txt);
            }
        }
        self.j.end_obj();
    }

    fn operand(&mut self, owner: LocalDefId, body: &Body<'tcx>, o: &Operand<'tcx>) {
        match o {
            Operand::Copy(p) => {
                self.j.obj();
                self.j.kstr("k", "copy");
                self.j.key("p");
                self.place(body, p);
                self.j.end_obj();
            }
            Operand::Move(p) => {
                self.j.obj();
                self.j.kstr("k", "move");
                self.j.key("p");
                self.place(body, p);
                self.j.end_obj();
            }
            Operand::Constant(c) => self.constant(owner, c),
            #[allow(unreachable_patterns)]
            _ => {
                self.j.obj();
                self.j.kstr("k", "other");
                self.j.kstr("t", &format!("{:?}", o));
                self.j.end_obj();
            }
        }
    }

    fn rvalue(&mut self, owner: LocalDefId, body: &Body<'tcx>, r: &Rvalue<'tcx>) {
        self.j.obj();
        match r {
            Rvalue::Use(o, _) => {
                self.j.kstr("k", "use");
                self.j.key("o");
                self.operand(owner, body, o);
            }
            Rvalue::Ref(_, bk, p) => {
                self.j.kstr("k", "ref");
                let m = match bk {
                    mir::BorrowKind::Shared => "shared",
                    mir::BorrowKind::Fake(_) => "fake",
                    mir::BorrowKind::Mut { .. } => "mut",
                };
                self.j.kstr("m", m);
                self.j.key("p");
                self.place(body, p);
            }
            Rvalue::RawPtr(_, p) => {
                self.j.kstr("k", "rawptr");
                self.j.key("p");
                self.place(body, p);
            }
            Rvalue::CopyForDeref(p) => {
                self.j.kstr("k", "copyderef");
                self.j.key("p");
                self.place(body, p);
            }
            Rvalue::Discriminant(p) => {
                self.j.kstr("k", "discr");
                self.j.key("p");
                self.place(body, p);
                let pty = p.ty(body, self.tcx).ty;
                if let ty::Adt(adt, _) = pty.kind() {
                    if adt.is_enum() {
                        self.j.kstr("adt", &self.path(adt.did()));
                        self.j.key("vars");
                        self.j.arr();
                        for (vi, var) in adt.variants().iter_enumerated() {
                            let dv = adt.discriminant_for_variant(self.tcx, vi);
                            self.j.arr();
                            self.j.uint(dv.val);
                            self.j.str(&var.name.to_string());
                            self.j.end_arr();
                        }
                        self.j.end_arr();
                    }
                }
            }
            Rvalue::BinaryOp(op, ab) => {
                self.j.kstr("k", "bin");
                self.j.kstr("op", &format!("{:?}", op));
                self.j.key("a");
                self.operand(owner, body, &ab.0);
                self.j.key("b");
                self.operand(owner, body, &ab.1);
            }
            Rvalue::UnaryOp(op, a) => {
                self.j.kstr("k", "un");
                self.j.kstr("op", &format!("{:?}", op));
                self.j.key("a");
                self.operand(owner, body, a);
            }
            Rvalue::Cast(ck, o, ty) => {
                self.j.kstr("k", "cast");
                let mut cks = format!("{:?}", ck);
                if let Some(i) = cks.find('(') {
                    cks.truncate(i);
                }
                self.j.kstr("ck", &cks);
                self.j.kstr("ty", &format!("{}", ty));
                self.j.key("o");
                self.operand(owner, body, o);
            }
            Rvalue::Repeat(o, n) => {
                self.j.kstr("k", "repeat");
                self.j.kstr("n", &format!("{}", n));
                self.j.key("o");
                self.operand(owner, body, o);
            }
            Rvalue::Aggregate(ak, ops) => {
                self.j.kstr("k", "agg");
                match &**ak {
                    AggregateKind::Array(_) => self.j.kstr("ak", "array"),
                    AggregateKind::Tuple => self.j.kstr("ak", "tuple"),
                    AggregateKind::Adt(def, vi, _, _, active) => {
                        self.j.kstr("ak", "adt");
                        let adt = self.tcx.adt_def(*def);
                        self.j.kstr("adt", &self.path(*def));
                        let var = adt.variant(*vi);
                        self.j.kstr("variant", &var.name.to_string());
                        self.j.key("fields");
                        self.j.arr();
                        if let Some(a) = active {
                            if let Some(f) = var.fields.iter().nth(a.as_usize()) {
                                self.j.str(&f.name.to_string());
                            }
                        } else {
                            for f in var.fields.iter() {
                                self.j.str(&f.name.to_string());
                            }
                        }
                        self.j.end_arr();
                    }
                    AggregateKind::Closure(def, _) => {
                        self.j.kstr("ak", "closure");
                        self.j.kstr("def", &self.path(*def));
                    }
                    AggregateKind::Coroutine(def, _) => {
                        self.j.kstr("ak", "coroutine");
                        self.j.kstr("def", &self.path(*def));
                    }
                    AggregateKind::CoroutineClosure(def, _) => {
                        self.j.kstr("ak", "coroutine_closure");
                        self.j.kstr("def", &self.path(*def));
                    }
                    AggregateKind::RawPtr(..) => self.j.kstr("ak", "rawptr"),
                }
                self.j.key("ops");
                self.j.arr();
                for o in ops.iter() {
                    self.operand(owner, body, o);
                }
                self.j.end_arr();
            }
            other => {
                self.j.kstr("k", "other");
                self.j.kstr("t", &format!("{:?}", other));
            }
        }
        self.j.end_obj();
    }

    fn bb(&mut self, k: &str, b: BasicBlock) {
        self.j.kint(k, b.as_usize() as i128);
    }

    fn unwind(&mut self, u: &mir::UnwindAction) {
        if let mir::UnwindAction::Cleanup(b) = u {
            self.bb("u", *b);
        }
    }

    fn terminator(&mut self, owner: LocalDefId, body: &Body<'tcx>, t: &mir::Terminator<'tcx>) {
        let tcx = self.tcx;
        self.j.obj();
        match &t.kind {
            TerminatorKind::Goto { target } => {
                self.j.kstr("k", "goto");
                self.bb("t", *target);
            }
            TerminatorKind::SwitchInt { discr, targets } => {
                self.j.kstr("k", "switch");
                self.j.key("o");
                self.operand(owner, body, discr);
                self.j.kstr("ty", &format!("{}", discr.ty(body, tcx)));
                self.j.key("targets");
                self.j.arr();
                for (v, b) in targets.iter() {
                    self.j.arr();
                    self.j.uint(v);
                    self.j.int(b.as_usize() as i128);
                    self.j.end_arr();
                }
                self.j.end_arr();
                self.bb("otherwise", targets.otherwise());
            }
            TerminatorKind::Return => self.j.kstr("k", "return"),
            TerminatorKind::Unreachable => self.j.kstr("k", "unreachable"),
            TerminatorKind::UnwindResume => self.j.kstr("k", "resume"),
            TerminatorKind::UnwindTerminate(_) => self.j.kstr("k", "terminate"),
            TerminatorKind::CoroutineDrop => self.j.kstr("k", "coroutine_drop"),
            TerminatorKind::Drop { place, target, unwind, .. } => {
                self.j.kstr("k", "drop");
                self.j.key("p");
                self.place(body, place);
                self.bb("t", *target);
                self.unwind(unwind);
            }
            TerminatorKind::Call { func, args, destination, target, unwind, .. } => {
                self.j.kstr("k", "call");
                self.call_common(owner, body, func, args.iter().map(|a| &a.node));
                self.j.key("d");
                self.place(body, destination);
                if let Some(t) = target {
                    self.bb("t", *t);
                }
                self.unwind(unwind);
            }
            TerminatorKind::TailCall { func, args, .. } => {
                self.j.kstr("k", "tailcall");
                self.call_common(owner, body, func, args.iter().map(|a| &a.node));
            }
            TerminatorKind::Assert { cond, expected, msg, target, unwind } => {
                self.j.kstr("k", "assert");
                self.j.key("c");
                self.operand(owner, body, cond);
                self.j.kbool("e", *expected);
                let m = match &**msg {
                    mir::AssertKind::BoundsCheck { .. } => "bounds".to_string(),
                    mir::AssertKind::Overflow(op, ..) => format!("overflow:{:?}", op),
                    mir::AssertKind::OverflowNeg(_) => "overflow:Neg".to_string(),
                    mir::AssertKind::DivisionByZero(_) => "div0".to_string(),
                    mir::AssertKind::RemainderByZero(_) => "rem0".to_string(),
                    mir::AssertKind::ResumedAfterReturn(_) => "resumed_after_return".to_string(),
                    mir::AssertKind::ResumedAfterPanic(_) => "resumed_after_panic".to_string(),
                    mir::AssertKind::ResumedAfterDrop(_) => "resumed_after_drop".to_string(),
                    mir::AssertKind::MisalignedPointerDereference { .. } => "misaligned".to_string(),
                    mir::AssertKind::NullPointerDereference => "nullptr".to_string(),
                    mir::AssertKind::InvalidEnumConstruction(_) => "invalid_enum".to_string(),
                };
                self.j.kstr("msg", &m);
                self.bb("t", *target);
                self.unwind(unwind);
            }
            TerminatorKind::Yield { value, resume, drop, .. } => {
                self.j.kstr("k", "yield");
                self.j.key("v");
                self.operand(owner, body, value);
                self.bb("t", *resume);
                if let Some(d) = drop {
                    self.bb("dr", *d);
                }
            }
            TerminatorKind::FalseEdge { real_target, imaginary_target } => {
                self.j.kstr("k", "falseedge");
                self.bb("t", *real_target);
                self.bb("i", *imaginary_target);
            }
            TerminatorKind::FalseUnwind { real_target, .. } => {
                self.j.kstr("k", "falseunwind");
                self.bb("t", *real_target);
            }
            TerminatorKind::InlineAsm { .. } => self.j.kstr("k", "asm"),
        }
        self.span_info(t.source_info.span);
        self.j.end_obj();
    }

    fn call_common<'a>(
        &mut self,
        owner: LocalDefId,
        body: &Body<'tcx>,
        func: &Operand<'tcx>,
        args: impl Iterator<Item = &'a Operand<'tcx>>,
    ) where
        'tcx: 'a,
    {
        let tcx = self.tcx;
        let fty = func.ty(body, tcx);
        match fty.kind() {
            ty::FnDef(def, gargs) => {
                self.j.kstr("fn", &self.path(*def));
                if !gargs.is_empty() {
                    let mut ga = format!("{:?}", gargs);
                    if ga.len() > 400 {
                        ga.truncate(400);
                    }
                    self.j.kstr("ga", &ga);
                }
                let tenv = TypingEnv::post_analysis(tcx, owner);
                let mut resolved: Option<String> = None;
                // try_resolve asserts normalised args; guard against panics on odd inputs
                if let Ok(nargs) = tcx.try_normalize_erasing_regions(tenv, ty::Unnormalized::new_wip(*gargs)) {
                    if let Ok(Some(inst)) = Instance::try_resolve(tcx, tenv, *def, nargs) {
                        let rd = inst.def_id();
                        let rp = self.path(rd);
                        resolved = Some(match inst.def {
                            ty::InstanceKind::Item(_) => rp,
                            ty::InstanceKind::Virtual(..) => format!("virtual:{}", rp),
                            _ => format!("shim:{}", rp),
                        });
                    }
                }
                if let Some(r) = resolved {
                    self.j.kstr("res", &r);
                }
                // trait + self type of a trait method call
                if let Some(tr) = tcx.trait_of_assoc(*def) {
                    self.j.kstr("trait", &self.path(tr));
                    if !gargs.is_empty() {
                        if let Some(st) = gargs.get(0).and_then(|a| a.as_type()) {
                            let mut s = format!("{}", st);
                            if s.len() > 300 {
                                s.truncate(300);
                            }
                            self.j.kstr("self", &s);
                        }
                    }
                } else if let Some(imp) = tcx.impl_of_assoc(*def) {
                    let st = tcx.type_of(imp).instantiate_identity().skip_norm_wip();
                    let mut s = format!("{}", st);
                    if s.len() > 300 {
                        s.truncate(300);
                    }
                    self.j.kstr("self", &s);
                }
            }
            _ => {
                self.j.key("f");
                self.operand(owner, body, func);
                self.j.kstr("fty", &format!("{}", fty));
            }
        }
        self.j.key("args");
        self.j.arr();
        for a in args {
            self.operand(owner, body, a);
        }
        self.j.end_arr();
    }

    fn body(&mut self, def: LocalDefId, body: &Body<'tcx>, phase: &str) {
        self.body_with(def, body, phase, None)
    }

    fn blocks(&mut self, def: LocalDefId, body: &Body<'tcx>) {
        self.j.arr();
        for (_bb, data) in body.basic_blocks.iter_enumerated() {
            self.j.obj();
            if data.is_cleanup {
                self.j.kbool("cleanup", true);
            }
            self.j.key("stmts");
            self.j.arr();
            for st in data.statements.iter() {
                if let StatementKind::Assign(b) = &st.kind {
                    let (p, r) = &**b;
                    self.j.obj();
                    self.j.kstr("k", "assign");
                    self.j.key("p");
                    self.place(body, p);
                    self.j.key("r");
                    self.rvalue(def, body, r);
                    self.j.end_obj();
                }
            }
            self.j.end_arr();
            self.j.key("term");
            match &data.terminator {
                Some(t) => self.terminator(def, body, t),
                None => self.j.null(),
            }
            self.j.end_obj();
        }
        self.j.end_arr();
    }

    fn body_with(
        &mut self,
        def: LocalDefId,
        body: &Body<'tcx>,
        phase: &str,
        promoted: Option<&rustc_index::IndexVec<mir::Promoted, Body<'tcx>>>,
    ) {
        let tcx = self.tcx;
        let did = def.to_def_id();
        self.j.obj();
        self.j.kstr("path", &self.path(did));
        let kind = match tcx.def_kind(did) {
            DefKind::Fn => "fn",
            DefKind::AssocFn => "method",
            DefKind::Closure => {
                if tcx.is_coroutine(did) {
                    "coroutine"
                } else {
                    "closure"
                }
            }
            _ => "other",
        };
        self.j.kstr("kind", kind);
        if tcx.is_typeck_child(did) {
            let parent = tcx.local_parent(def);
            self.j.kstr("parent", &self.path(parent.to_def_id()));
        }
        self.j.kstr("vis", &vis_str(tcx, did));
        self.j.kstr("phase", phase);
        let sm = tcx.sess.source_map();
        let sp = tcx.def_span(did);
        let lo = sm.lookup_char_pos(sp.lo());
        self.j.kstr("file", &format!("{}", lo.file.name.prefer_local_unconditionally()));
        self.j.kint("line", lo.line as i128);
        self.j.kint("argc", body.arg_count as i128);
        if let Some(assoc) = tcx.opt_associated_item(did) {
            if let Some(tr) = assoc.trait_item_def_id() {
                self.j.kstr("trait_item", &self.path(tr));
            }
        }
        self.j.key("locals");
        self.j.arr();
        for d in body.local_decls.iter() {
            let mut s = format!("{}", d.ty);
            if s.len() > 240 {
                s.truncate(240);
            }
            self.j.str(&s);
        }
        self.j.end_arr();
        self.j.key("names");
        self.j.obj();
        let mut seen = std::collections::HashSet::new();
        for v in body.var_debug_info.iter() {
            if let mir::VarDebugInfoContents::Place(p) = &v.value {
                if p.projection.is_empty() && seen.insert(p.local) {
                    self.j.kstr(&p.local.as_usize().to_string(), &v.name.to_string());
                }
            }
        }
        self.j.end_obj();
        // upvar names by debuginfo (closure env projections)
        self.j.key("upnames");
        self.j.arr();
        for v in body.var_debug_info.iter() {
            if let mir::VarDebugInfoContents::Place(p) = &v.value {
                if !p.projection.is_empty() {
                    self.j.obj();
                    self.j.kstr("n", &v.name.to_string());
                    self.j.key("p");
                    self.place(body, p);
                    self.j.end_obj();
                }
            }
        }
        self.j.end_arr();
        if let Some(ps) = promoted {
            self.j.key("promoted");
            self.j.arr();
            for pb in ps.iter() {
                self.j.obj();
                self.j.key("locals");
                self.j.arr();
                for d in pb.local_decls.iter() {
                    let mut s = format!("{}", d.ty);
                    if s.len() > 240 {
                        s.truncate(240);
                    }
                    self.j.str(&s);
                }
                self.j.end_arr();
                self.j.key("blocks");
                self.blocks(def, pb);
                self.j.end_obj();
            }
            self.j.end_arr();
        }
        self.j.key("blocks");
        self.j.arr();
        for (_bb, data) in body.basic_blocks.iter_enumerated() {
            self.j.obj();
            if data.is_cleanup {
                self.j.kbool("cleanup", true);
            }
            self.j.key("stmts");
            self.j.arr();
            for st in data.statements.iter() {
                match &st.kind {
                    StatementKind::Assign(b) => {
                        let (p, r) = &**b;
                        self.j.obj();
                        self.j.kstr("k", "assign");
                        self.j.key("p");
                        self.place(body, p);
                        self.j.key("r");
                        self.rvalue(def, body, r);
                        self.span_info(st.source_info.span);
                        self.j.end_obj();
                    }
                    StatementKind::SetDiscriminant { place, variant_index } => {
                        self.j.obj();
                        self.j.kstr("k", "setdiscr");
                        self.j.key("p");
                        self.place(body, place);
                        self.j.kint("vi", variant_index.as_usize() as i128);
                        self.span_info(st.source_info.span);
                        self.j.end_obj();
                    }
                    _ => {}
                }
            }
            self.j.end_arr();
            self.j.key("term");
            match &data.terminator {
                Some(t) => self.terminator(def, body, t),
                None => self.j.null(),
            }
            self.j.end_obj();
        }
        self.j.end_arr();
        self.j.end_obj();
    }

    fn ty_str(&self, t: Ty<'tcx>) -> String {
        let mut s = format!("{}", t);
        if s.len() > 300 {
            s.truncate(300);
        }
        s
    }
}

fn dump<'tcx>(tcx: TyCtxt<'tcx>, out_path: &str) {
    let mut d = D { tcx, j: J::new() };
    let krate = tcx.crate_name(rustc_hir::def_id::LOCAL_CRATE).to_string();
    d.j.obj();
    d.j.kstr("crate", &krate);
    d.j.kint("schema", 1);

    // ---- bodies
    d.j.key("bodies");
    d.j.arr();
    let mut n_bodies = 0usize;
    let mut n_stolen = 0usize;
    for def in tcx.hir_body_owners() {
        let did = def.to_def_id();
        match tcx.def_kind(did) {
            DefKind::Fn | DefKind::AssocFn | DefKind::Closure => {}
            _ => continue,
        }
        let (steal, promoted) = tcx.mir_promoted(def);
        if !steal.is_stolen() {
            let b = steal.borrow();
            if !promoted.is_stolen() {
                let ps = promoted.borrow();
                d.body_with(def, &b, "promoted", Some(&ps));
            } else {
                d.body(def, &b, "promoted");
            }
            n_bodies += 1;
        } else {
            n_stolen += 1;
            // const fns etc: fall back to the optimised body (mir-opt-level=0)
            if tcx.is_mir_available(did) {
                let b = tcx.optimized_mir(did);
                d.body(def, b, "optimized");
                n_bodies += 1;
            }
        }
    }
    d.j.end_arr();
    d.j.kint("n_bodies", n_bodies as i128);
    d.j.kint("n_stolen", n_stolen as i128);

    // ---- items
    d.j.key("adts");
    d.j.arr();
    let mut consts: Vec<LocalDefId> = vec![];
    let mut impls: Vec<LocalDefId> = vec![];
    let mut fns: Vec<LocalDefId> = vec![];
    for ldef in tcx.hir_crate_items(()).definitions() {
        let did = ldef.to_def_id();
        match tcx.def_kind(did) {
            DefKind::Struct | DefKind::Enum | DefKind::Union => {
                let adt = tcx.adt_def(did);
                d.j.obj();
                d.j.kstr("path", &d.path(did));
                d.j.kstr(
                    "kind",
                    if adt.is_enum() {
                        "enum"
                    } else if adt.is_union() {
                        "union"
                    } else {
                        "struct"
                    },
                );
                d.j.kstr("vis", &vis_str(tcx, did));
                d.j.key("variants");
                d.j.arr();
                for (vi, var) in adt.variants().iter_enumerated() {
                    d.j.obj();
                    d.j.kstr("name", &var.name.to_string());
                    if adt.is_enum() {
                        let dv = adt.discriminant_for_variant(tcx, vi);
                        d.j.key("discr");
                        d.j.uint(dv.val);
                    }
                    d.j.key("fields");
                    d.j.arr();
                    for f in var.fields.iter() {
                        d.j.obj();
                        d.j.kstr("n", &f.name.to_string());
                        let fty = tcx.type_of(f.did).instantiate_identity().skip_norm_wip();
                        d.j.kstr("ty", &d.ty_str(fty));
                        d.j.kstr("vis", &match f.vis {
                            ty::Visibility::Public => "pub".to_string(),
                            ty::Visibility::Restricted(m) => {
                                if m == did || tcx.is_descendant_of(did, m) && !tcx.def_path(m).data.is_empty() {
                                    if m.is_crate_root() { "crate".to_string() } else { format!("in:{}", tcx.def_path_str(m)) }
                                } else if m.is_crate_root() {
                                    "crate".to_string()
                                } else {
                                    format!("in:{}", tcx.def_path_str(m))
                                }
                            }
                        });
                        d.j.end_obj();
                    }
                    d.j.end_arr();
                    d.j.end_obj();
                }
                d.j.end_arr();
                d.j.end_obj();
            }
            DefKind::Const { .. } | DefKind::AssocConst { .. } | DefKind::Static { .. } => consts.push(ldef),
            DefKind::Impl { .. } => impls.push(ldef),
            DefKind::Fn | DefKind::AssocFn => fns.push(ldef),
            _ => {}
        }
    }
    d.j.end_arr();

    d.j.key("consts");
    d.j.arr();
    for ldef in consts {
        let did = ldef.to_def_id();
        let ty = tcx.type_of(did).instantiate_identity().skip_norm_wip();
        d.j.obj();
        d.j.kstr("path", &d.path(did));
        let dk = tcx.def_kind(did);
        let kind = match dk {
            DefKind::Static { .. } => "static",
            DefKind::AssocConst { .. } => "assoc_const",
            _ => "const",
        };
        d.j.kstr("kind", kind);
        if let DefKind::Static { mutability, .. } = dk {
            d.j.kbool("mut", mutability.is_mut());
        }
        d.j.kstr("ty", &d.ty_str(ty));
        d.j.kstr("vis", &vis_str(tcx, did));
        if let DefKind::Static { nested: false, .. } = dk {
            if let Ok(alloc) = tcx.eval_static_initializer(did) {
                let a = alloc.inner();
                let n = a.size().bytes() as usize;
                if n <= 16 && a.provenance().ptrs().is_empty() {
                    let bytes = a.inspect_with_uninit_and_ptr_outside_interpreter(0..n);
                    let mut v: u128 = 0;
                    for (i, b) in bytes.iter().enumerate() {
                        v |= (*b as u128) << (8 * i);
                    }
                    d.j.key("init");
                    d.j.uint(v);
                }
            }
        }
        let generic = tcx.generics_of(did).requires_monomorphization(tcx);
        let scalar = ty.is_integral() || ty.is_bool() || ty.is_char();
        if !generic && scalar && !matches!(dk, DefKind::Static { .. }) {
            // only defaulted / inherent consts with a body
            let has_body = match dk {
                DefKind::AssocConst { .. } => tcx.hir_maybe_body_owned_by(ldef).is_some(),
                _ => true,
            };
            if has_body {
                if let Ok(cv) = tcx.const_eval_poly(did) {
                    if let Some(si) = cv.try_to_scalar_int() {
                        let size = si.size();
                        let bits = si.to_bits(size);
                        d.j.key("v");
                        if ty.is_signed() {
                            d.j.int(size.sign_extend(bits) as i128);
                        } else {
                            d.j.uint(bits);
                        }
                    }
                }
            }
        } else if !generic && !matches!(dk, DefKind::Static { .. }) {
            let has_body = match dk {
                DefKind::AssocConst { .. } => tcx.hir_maybe_body_owned_by(ldef).is_some(),
                _ => true,
            };
            if has_body {
                if let Ok(cv) = tcx.const_eval_poly(did) {
                    if matches!(cv, ConstValue::Slice { .. } | ConstValue::Indirect { .. }) && (ty.is_ref()) {
                        let inner = ty.builtin_deref(true);
                        let is_slice_like = inner.map(|t| t.is_str() || t.is_slice()).unwrap_or(false);
                        if is_slice_like {
                            if let Some(bytes) = cv.try_get_slice_bytes_for_diagnostics(tcx) {
                                match std::str::from_utf8(bytes) {
                                    Ok(s) => d.j.kstr("s", s),
                                    Err(_) => d.j.kstr("s", &format!("{:?}", bytes)),
                                }
                            }
                        }
                    }
                }
            }
        }
        d.j.end_obj();
    }
    d.j.end_arr();

    d.j.key("impls");
    d.j.arr();
    for ldef in impls {
        let did = ldef.to_def_id();
        d.j.obj();
        let st = tcx.type_of(did).instantiate_identity().skip_norm_wip();
        d.j.kstr("self", &d.ty_str(st));
        if let Some(tr) = tcx.impl_opt_trait_ref(did) {
            let tr = tr.instantiate_identity().skip_norm_wip();
            d.j.kstr("trait", &d.path(tr.def_id));
        }
        d.j.key("items");
        d.j.arr();
        for it in tcx.associated_item_def_ids(did) {
            d.j.str(&d.path(*it));
        }
        d.j.end_arr();
        d.j.end_obj();
    }
    d.j.end_arr();

    d.j.key("fns");
    d.j.arr();
    for ldef in fns {
        let did = ldef.to_def_id();
        d.j.obj();
        d.j.kstr("path", &d.path(did));
        d.j.kstr("vis", &vis_str(tcx, did));
        d.j.end_obj();
    }
    d.j.end_arr();

    d.j.end_obj();
    let tmp = format!("{}.tmp.{}", out_path, std::process::id());
    std::fs::write(&tmp, d.j.s.as_bytes()).expect("mirfacts: write");
    std::fs::rename(&tmp, out_path).expect("mirfacts: rename");
}

struct Cb {
    out: Option<String>,
}

impl rustc_driver::Callbacks for Cb {
    fn after_expansion<'tcx>(
        &mut self,
        _c: &rustc_interface::interface::Compiler,
        tcx: TyCtxt<'tcx>,
    ) -> Compilation {
        // Dump before analysis: nothing has stolen `mir_promoted` yet, so every
        // body (including coroutines) is seen before the state transform.
        if let Some(out) = &self.out {
            dump(tcx, out);
        }
        Compilation::Continue
    }
}

fn main() {
    let mut args: Vec<String> = std::env::args().collect();
    // RUSTC_WORKSPACE_WRAPPER: argv[1] is the real rustc path
    if args.len() > 1 && (args[1].ends_with("rustc") || args[1].contains("/rustc")) {
        args.remove(1);
    }
    let mut crate_name = None;
    let mut meta = None;
    let mut i = 0;
    while i < args.len() {
        if args[i] == "--crate-name" && i + 1 < args.len() {
            crate_name = Some(args[i + 1].clone());
        }
        if args[i] == "-C" && i + 1 < args.len() {
            if let Some(m) = args[i + 1].strip_prefix("extra-filename=-") {
                meta = Some(m.to_string());
            }
        }
        if let Some(m) = args[i].strip_prefix("-Cextra-filename=-") {
            meta = Some(m.to_string());
        }
        i += 1;
    }
    let out_dir = std::env::var("MIRFACTS_OUT").ok();
    let skip = match &crate_name {
        Some(n) => n.starts_with("build_script_") || n == "___",
        None => true,
    };
    let is_print = args.iter().any(|a| a.starts_with("--print") || a == "-vV");
    let out = match (out_dir, crate_name, skip || is_print) {
        (Some(d), Some(n), false) => {
            let _ = std::fs::create_dir_all(&d);
            Some(format!("{}/{}-{}.json", d, n, meta.unwrap_or_else(|| "nometa".into())))
        }
        _ => None,
    };
    let mut cb = Cb { out };
    rustc_driver::run_compiler(&args, &mut cb);
}
