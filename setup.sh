#!/bin/sh
# Offline setup: build the rustc driver and warm the fact caches (dependency check + first extraction; derive fixture).
set -e
cd "$(dirname "$0")"
export CARGO_NET_OFFLINE=true
(cd driver && cargo +nightly build --offline 2>&1 | tail -2)
python3 vrules/facts.py > /dev/null
python3 -m vrules.fixture NONE_MATCHES > /dev/null
echo "setup ok"
