#!/bin/sh
# Offline setup: build the rustc driver and warm the fact cache (dependency check + first extraction).
set -e
cd "$(dirname "$0")"
export CARGO_NET_OFFLINE=true
(cd driver && cargo +nightly build --offline 2>&1 | tail -2)
python3 vrules/facts.py > /dev/null
echo "setup ok"
