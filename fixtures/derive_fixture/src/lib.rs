//! Fixture for C58 (DESIGN K14): representative shapes of `#[derive(NetworkBehaviour)]`.
//!
//! This crate is never run.  `vrules/fixture.py` compiles it against the *current*
//! `$VERIF_REPO/swarm-derive` with the mirfacts driver; `vrules/props/c58.py` analyses the MIR of
//! the macro expansion (`impl NetworkBehaviour for Two / Three / Generic<T> / Custom`).
//!
//! `Probe<N>` are distinct behaviours (distinct event types `Ev<N>`, handler events `In<N>` /
//! `Out<N>`), so that every `Either` arm of the composed handler types is inhabited.
#![allow(dead_code)]

use std::task::{Context, Poll};

use libp2p_core::upgrade::DeniedUpgrade;
use libp2p_swarm::{
    ConnectionHandlerEvent, NetworkBehaviour, SubstreamProtocol,
    derive_prelude::*,
    handler::ConnectionEvent,
};

/// `ToSwarm` event of probe `N`.
#[derive(Debug)]
pub struct Ev<const N: usize>(pub usize);
/// Behaviour -> handler event of probe `N`.
#[derive(Debug)]
pub struct In<const N: usize>(pub usize);
/// Handler -> behaviour event of probe `N`.
#[derive(Debug)]
pub struct Out<const N: usize>(pub usize);

pub struct ProbeHandler<const N: usize>;

impl<const N: usize> ConnectionHandler for ProbeHandler<N> {
    type FromBehaviour = In<N>;
    type ToBehaviour = Out<N>;
    type InboundProtocol = DeniedUpgrade;
    type OutboundProtocol = DeniedUpgrade;
    type InboundOpenInfo = ();
    type OutboundOpenInfo = ();

    fn listen_protocol(&self) -> SubstreamProtocol<Self::InboundProtocol> {
        SubstreamProtocol::new(DeniedUpgrade, ())
    }

    fn on_behaviour_event(&mut self, _event: Self::FromBehaviour) {}

    fn poll(
        &mut self,
        _: &mut Context<'_>,
    ) -> Poll<ConnectionHandlerEvent<Self::OutboundProtocol, (), Self::ToBehaviour>> {
        Poll::Pending
    }

    fn on_connection_event(
        &mut self,
        _event: ConnectionEvent<Self::InboundProtocol, Self::OutboundProtocol>,
    ) {
    }
}

/// A behaviour that records which of its methods were called.
pub struct Probe<const N: usize> {
    pub log: Vec<&'static str>,
}

impl<const N: usize> NetworkBehaviour for Probe<N> {
    type ConnectionHandler = ProbeHandler<N>;
    type ToSwarm = Ev<N>;

    fn handle_pending_inbound_connection(
        &mut self,
        _: ConnectionId,
        _: &Multiaddr,
        _: &Multiaddr,
    ) -> Result<(), ConnectionDenied> {
        self.log.push("handle_pending_inbound_connection");
        Ok(())
    }

    fn handle_established_inbound_connection(
        &mut self,
        _: ConnectionId,
        _: PeerId,
        _: &Multiaddr,
        _: &Multiaddr,
    ) -> Result<THandler<Self>, ConnectionDenied> {
        self.log.push("handle_established_inbound_connection");
        Ok(ProbeHandler)
    }

    fn handle_pending_outbound_connection(
        &mut self,
        _: ConnectionId,
        _: Option<PeerId>,
        _: &[Multiaddr],
        _: Endpoint,
    ) -> Result<Vec<Multiaddr>, ConnectionDenied> {
        self.log.push("handle_pending_outbound_connection");
        Ok(vec![])
    }

    fn handle_established_outbound_connection(
        &mut self,
        _: ConnectionId,
        _: PeerId,
        _: &Multiaddr,
        _: Endpoint,
        _: PortUse,
    ) -> Result<THandler<Self>, ConnectionDenied> {
        self.log.push("handle_established_outbound_connection");
        Ok(ProbeHandler)
    }

    fn on_swarm_event(&mut self, _: FromSwarm) {
        self.log.push("on_swarm_event");
    }

    fn on_connection_handler_event(&mut self, _: PeerId, _: ConnectionId, _: THandlerOutEvent<Self>) {
        self.log.push("on_connection_handler_event");
    }

    fn poll(&mut self, _: &mut Context<'_>) -> Poll<ToSwarm<Self::ToSwarm, THandlerInEvent<Self>>> {
        Poll::Pending
    }
}

/// Two named fields, generated `TwoEvent`.
#[derive(NetworkBehaviour)]
#[behaviour(prelude = "libp2p_swarm::derive_prelude")]
pub struct Two {
    pub first: Probe<0>,
    pub second: Probe<1>,
}

/// Three named fields, generated `ThreeEvent`.
#[derive(NetworkBehaviour)]
#[behaviour(prelude = "libp2p_swarm::derive_prelude")]
pub struct Three {
    pub first: Probe<0>,
    pub second: Probe<1>,
    pub third: Probe<2>,
}

/// Three fields, the middle one a generic parameter, generated `GenericEvent<T>`.
#[derive(NetworkBehaviour)]
#[behaviour(prelude = "libp2p_swarm::derive_prelude")]
pub struct Generic<T> {
    pub first: Probe<0>,
    pub inner: T,
    pub last: Probe<2>,
}

/// Three fields of the *same* behaviour type: here a wrong routing (arm k delivered to field j, event of field k
/// wrapped as field j's) still type-checks, so only the structure of the expansion shows it.
#[derive(NetworkBehaviour)]
#[behaviour(prelude = "libp2p_swarm::derive_prelude")]
pub struct Same {
    pub a: Probe<0>,
    pub b: Probe<0>,
    pub c: Probe<0>,
}

/// Three fields with a user-provided `ToSwarm` type.
#[derive(NetworkBehaviour)]
#[behaviour(to_swarm = "CustomOut", prelude = "libp2p_swarm::derive_prelude")]
pub struct Custom {
    pub first: Probe<0>,
    pub second: Probe<1>,
    pub third: Probe<2>,
}

#[derive(Debug)]
pub enum CustomOut {
    Probe(usize, usize),
}

impl<const N: usize> From<Ev<N>> for CustomOut {
    fn from(e: Ev<N>) -> Self {
        CustomOut::Probe(N, e.0)
    }
}

/// Forces monomorphic instances to exist (type-checks the composed associated types).
pub fn instantiate() -> (Two, Three, Generic<Probe<1>>, Custom, Same) {
    let p0 = || Probe::<0> { log: vec![] };
    let p1 = || Probe::<1> { log: vec![] };
    let p2 = || Probe::<2> { log: vec![] };
    (
        Two { first: p0(), second: p1() },
        Three { first: p0(), second: p1(), third: p2() },
        Generic { first: p0(), inner: p1(), last: p2() },
        Custom { first: p0(), second: p1(), third: p2() },
        Same { a: p0(), b: p0(), c: p0() },
    )
}
